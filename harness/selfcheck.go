package influxql

import (
	"regexp"
	"strconv"
	"strings"
)

// Engine self-checks (not properties): symbolic library models against the native functions.

var selfRegexes = []string{
	`^\d{4}-\d{2}-\d{2}$`, `a.*b`, `(?i)password\s+for[^=]*=\s+(["']?[^\s"]+["']?)`, `^a|b$`, `(?m)^a$`, `\bab\b`, `[^a]b?`, `(a|ab)(c|bcd)`, `x*`, `(?s)a.b`, `a{2,3}`,
}

func selfChar() byte {
	return vfIteByte(vfBool(), 'a', vfIteByte(vfBool(), 'b', vfIteByte(vfBool(), '\n', vfIteByte(vfBool(), '=', vfIteByte(vfBool(), ' ', '1')))))
}

func vfH_smoke_regexmatch(tier int) {
	re := regexp.MustCompile(selfRegexes[vfChoice(len(selfRegexes))])
	n := vfChoice(4)
	b := make([]byte, n)
	for i := range b {
		b[i] = selfChar()
	}
	s := string(b)
	m := re.MatchString(s)
	c := vfConcretize(s)
	vfAssert(m == re.MatchString(c), "smoke/regex-model-agrees-with-native-matcher")
	vfReach("smoke_regexmatch/ok")
}

func vfH_smoke_regexfind(tier int) {
	ri := vfChoice(len(selfRegexes))
	if tier >= 100 {
		ri = tier - 100
	}
	re := regexp.MustCompile(selfRegexes[ri])
	n := vfChoice(4)
	b := make([]byte, n)
	for i := range b {
		b[i] = selfChar()
	}
	s := string(b)
	got := re.FindAllStringSubmatchIndex(s, -1)
	c := vfConcretize(s)
	want := re.FindAllStringSubmatchIndex(c, -1)
	vfAssert(vfDeepEqual(got, want), "smoke/regex-find-model-agrees-with-native-matcher")
	vfReach("smoke_regexfind/ok")
}

// symbolic models of the strings package against the native functions
func vfH_smoke_strings(tier int) {
	n := vfChoice(4)
	b := make([]byte, n)
	for i := range b {
		b[i] = selfChar()
	}
	s := string(b)
	any := strings.ContainsAny(s, "a\n=")
	rn := strings.ContainsRune(s, 'b')
	ix := strings.Index(s, "ab")
	ix1 := strings.Index(s, "")
	ct := strings.Contains(s, "b ")
	ib := strings.IndexByte(s, '1')
	hp := strings.HasPrefix(s, "a=")
	hs := strings.HasSuffix(s, "=1")
	c := vfConcretize(s)
	vfAssert(any == strings.ContainsAny(c, "a\n="), "smoke/strings/ContainsAny")
	vfAssert(rn == strings.ContainsRune(c, 'b'), "smoke/strings/ContainsRune")
	vfAssert(ix == strings.Index(c, "ab"), "smoke/strings/Index")
	vfAssert(ix1 == strings.Index(c, ""), "smoke/strings/Index-empty")
	vfAssert(ct == strings.Contains(c, "b "), "smoke/strings/Contains")
	vfAssert(ib == strings.IndexByte(c, '1'), "smoke/strings/IndexByte")
	vfAssert(hp == strings.HasPrefix(c, "a="), "smoke/strings/HasPrefix")
	vfAssert(hs == strings.HasSuffix(c, "=1"), "smoke/strings/HasSuffix")
	vfReach("smoke_strings/ok")
}

// strconv.ParseInt model (base 10 and base 0) against the native function
func vfH_smoke_parseint(tier int) {
	n := 1 + vfChoice(3)
	b := make([]byte, n)
	for i := range b {
		b[i] = vfIteByte(vfBool(), '0', vfIteByte(vfBool(), '7', vfIteByte(vfBool(), '8', vfIteByte(vfBool(), '1', '-'))))
	}
	s := string(b)
	base := []int{10, 0}[vfChoice(2)]
	v, err := strconv.ParseInt(s, base, 64)
	c := vfConcretize(s)
	wv, werr := strconv.ParseInt(c, base, 64)
	vfAssert((err == nil) == (werr == nil), "smoke/parseint/error-agrees")
	vfAssert(v == wv, "smoke/parseint/value-agrees")
	vfReach("smoke_parseint/ok")
}
