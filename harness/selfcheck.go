package influxql

import "regexp"

// Engine self-checks (not properties): symbolic library models against the native functions.

var selfRegexes = []string{
	`^\d{4}-\d{2}-\d{2}$`, `a.*b`, `(?i)password\s+for[^=]*=\s+(["']?[^\s"]+["']?)`, `^a|b$`, `(?m)^a$`, `\bab\b`, `[^a]b?`, `(a|ab)(c|bcd)`, `x*`, `(?s)a.b`, `a{2,3}`,
}

func selfChar() byte {
	return vfIteByte(vfBool(), 'a', vfIteByte(vfBool(), 'b', vfIteByte(vfBool(), '\n', vfIteByte(vfBool(), '=', vfIteByte(vfBool(), ' ', '1')))))
}

func vfH_smoke_regexmatch(tier int) {
	re := regexp.MustCompile(selfRegexes[vfChoice(len(selfRegexes))])
	n := vfChoice(4)
	b := make([]byte, n)
	for i := range b {
		b[i] = selfChar()
	}
	s := string(b)
	m := re.MatchString(s)
	c := vfConcretize(s)
	vfAssert(m == re.MatchString(c), "smoke/regex-model-agrees-with-native-matcher")
	vfReach("smoke_regexmatch/ok")
}

func vfH_smoke_regexfind(tier int) {
	ri := vfChoice(len(selfRegexes))
	if tier >= 100 {
		ri = tier - 100
	}
	re := regexp.MustCompile(selfRegexes[ri])
	n := vfChoice(4)
	b := make([]byte, n)
	for i := range b {
		b[i] = selfChar()
	}
	s := string(b)
	got := re.FindAllStringSubmatchIndex(s, -1)
	c := vfConcretize(s)
	want := re.FindAllStringSubmatchIndex(c, -1)
	vfAssert(vfDeepEqual(got, want), "smoke/regex-find-model-agrees-with-native-matcher")
	vfReach("smoke_regexfind/ok")
}
