package main

import (
	"fmt"
	"go/token"
	"go/types"
	"unicode/utf8"

	"golang.org/x/tools/go/ssa"
)

func (in *Interp) binop(fr *frame, op token.Token, T types.Type, x, y Value, TY types.Type) Value {
	ts := in.ts
	switch op {
	case token.EQL:
		return in.equals(fr, T, x, y)
	case token.NEQ:
		return ts.Not(in.equals(fr, T, x, y))
	}
	if xs, ok := x.(Str); ok {
		ys := y.(Str)
		switch op {
		case token.ADD:
			return in.strConcat(xs, ys)
		case token.LSS:
			return in.strLess(xs, ys)
		case token.GTR:
			return in.strLess(ys, xs)
		case token.LEQ:
			return ts.Not(in.strLess(ys, xs))
		case token.GEQ:
			return ts.Not(in.strLess(xs, ys))
		}
		panic("string binop " + op.String())
	}
	a, b := x.(*Term), y.(*Term)
	if a.S.K == KBool {
		switch op {
		case token.AND, token.LAND:
			return ts.And(a, b)
		case token.OR, token.LOR:
			return ts.Or(a, b)
		}
		panic("bool binop " + op.String())
	}
	if a.S.K == KFP {
		switch op {
		case token.ADD:
			return ts.FBin(OFAdd, a, b)
		case token.SUB:
			return ts.FBin(OFSub, a, b)
		case token.MUL:
			return ts.FBin(OFMul, a, b)
		case token.QUO:
			return ts.FBin(OFDiv, a, b)
		case token.LSS:
			return ts.FCmp(OFLt, a, b)
		case token.LEQ:
			return ts.FCmp(OFLe, a, b)
		case token.GTR:
			return ts.FCmp(OFLt, b, a)
		case token.GEQ:
			return ts.FCmp(OFLe, b, a)
		}
		panic("float binop " + op.String())
	}
	w, signed, _ := intInfo(T)
	switch op {
	case token.ADD:
		return ts.Bin(OAdd, a, b)
	case token.SUB:
		return ts.Bin(OSub, a, b)
	case token.MUL:
		return ts.Bin(OMul, a, b)
	case token.QUO, token.REM:
		zero := ts.Eq(b, ts.BV(w, 0))
		if in.branch(zero, nil) {
			in.runtimePanic(fr, "integer divide by zero")
		}
		if signed {
			if op == token.QUO {
				return ts.Bin(OSDiv, a, b)
			}
			return ts.Bin(OSRem, a, b)
		}
		if op == token.QUO {
			return ts.Bin(OUDiv, a, b)
		}
		return ts.Bin(OURem, a, b)
	case token.AND:
		return ts.Bin(OBAnd, a, b)
	case token.OR:
		return ts.Bin(OBOr, a, b)
	case token.XOR:
		return ts.Bin(OBXor, a, b)
	case token.AND_NOT:
		return ts.Bin(OBAnd, a, ts.BNot(b))
	case token.SHL, token.SHR:
		// shift count: any integer type; negative signed count panics
		_, ysigned, _ := intInfo(TY)
		if ysigned {
			neg := ts.Cmp(OSlt, b, ts.BV(int(b.S.W), 0))
			if in.branch(neg, nil) {
				in.runtimePanic(fr, "negative shift amount")
			}
		}
		var sh *Term
		big := ts.False
		if int(b.S.W) > w {
			big = ts.Not(ts.Cmp(OUlt, b, ts.BV(int(b.S.W), uint64(w))))
			sh = ts.Extract(b, w-1, 0)
		} else {
			sh = ts.ZExt(b, w)
		}
		var r, over *Term
		switch {
		case op == token.SHL:
			r, over = ts.Bin(OShl, a, sh), ts.BV(w, 0)
		case signed:
			r = ts.Bin(OAShr, a, sh)
			over = ts.Bin(OAShr, a, ts.BV(w, uint64(w-1)))
		default:
			r, over = ts.Bin(OLShr, a, sh), ts.BV(w, 0)
		}
		return ts.Ite(big, over, r)
	case token.LSS:
		if signed {
			return ts.Cmp(OSlt, a, b)
		}
		return ts.Cmp(OUlt, a, b)
	case token.LEQ:
		if signed {
			return ts.Cmp(OSle, a, b)
		}
		return ts.Cmp(OUle, a, b)
	case token.GTR:
		if signed {
			return ts.Cmp(OSlt, b, a)
		}
		return ts.Cmp(OUlt, b, a)
	case token.GEQ:
		if signed {
			return ts.Cmp(OSle, b, a)
		}
		return ts.Cmp(OUle, b, a)
	}
	panic("binop " + op.String())
}

// equals builds the Bool term for x == y at static type T.
func (in *Interp) equals(fr *frame, T types.Type, x, y Value) *Term {
	ts := in.ts
	switch a := x.(type) {
	case *Term:
		b := y.(*Term)
		if a.S.K == KFP {
			return ts.FCmp(OFEq, a, b)
		}
		return ts.Eq(a, b)
	case Str:
		return in.strEq(a, y.(Str))
	case *Value:
		switch b := y.(type) {
		case *Value:
			return ts.Bool(a == b)
		case *Native:
			return ts.False
		}
	case *Native:
		if b, ok := y.(*Native); ok {
			return ts.Bool(a == b)
		}
		return ts.False
	case Iface:
		b := y.(Iface)
		if a.T == nil || b.T == nil {
			return ts.Bool(a.T == nil && b.T == nil)
		}
		if !types.Identical(a.T, b.T) {
			return ts.False
		}
		if !types.Comparable(a.T) {
			in.goPanic(fr, Str{S: "comparing uncomparable type"}, "runtime error: comparing uncomparable type "+a.T.String())
		}
		return in.equals(fr, a.T, a.V, b.V)
	case Struct:
		b := y.(Struct)
		st := T.Underlying().(*types.Struct)
		r := ts.True
		for i := range a {
			if st.Field(i).Name() == "_" {
				continue
			}
			r = ts.And(r, in.equals(fr, st.Field(i).Type(), a[i], b[i]))
		}
		return r
	case Array:
		b := y.(Array)
		et := T.Underlying().(*types.Array).Elem()
		r := ts.True
		for i := range a {
			r = ts.And(r, in.equals(fr, et, a[i], b[i]))
		}
		return r
	case []Value:
		// only comparison with nil is legal
		b, _ := y.([]Value)
		return ts.Bool(a == nil && b == nil || (a == nil) == (b == nil) && false)
	case *MapV:
		b, _ := y.(*MapV)
		if a == nil || b == nil {
			return ts.Bool(a == nil && b == nil)
		}
		return ts.Bool(a == b)
	case TimeV:
		b := y.(TimeV)
		return in.timeStructEq(a, b)
	case nil:
		return ts.Bool(isNilValue(y))
	case *ssa.Function, *Closure, *ssa.Builtin:
		return ts.Bool(isNilValue(x) && isNilValue(y))
	}
	if x == nil || y == nil {
		return ts.Bool(isNilValue(x) && isNilValue(y))
	}
	panic(fmt.Sprintf("equals: %T vs %T", x, y))
}

func isNilValue(v Value) bool {
	switch v := v.(type) {
	case nil:
		return true
	case *Value:
		return v == nil
	case []Value:
		return v == nil
	case *MapV:
		return v == nil
	case Iface:
		return v.T == nil
	case *ssa.Function:
		return v == nil
	case *Closure:
		return v == nil
	case *Native:
		return v == nil
	}
	return false
}

// ---- conversions

func (in *Interp) conv(fr *frame, dst, src types.Type, x Value) Value {
	ts := in.ts
	ud, us := dst.Underlying(), src.Underlying()
	// string conversions
	if isString(ud) {
		switch s := us.(type) {
		case *types.Basic:
			if s.Info()&types.IsString != 0 {
				return x
			}
			if s.Info()&types.IsInteger != 0 {
				return in.runeToStr(fr, x.(*Term), src)
			}
		case *types.Slice:
			xs := x.([]Value)
			eb := s.Elem().Underlying().(*types.Basic)
			if eb.Kind() == types.Uint8 {
				bs := make([]*Term, len(xs))
				for i, v := range xs {
					bs[i] = v.(*Term)
				}
				return in.strFromBytes(bs)
			}
			// []rune
			out := Str{}
			for _, v := range xs {
				out = in.strConcat(out, in.runeToStr(fr, v.(*Term), s.Elem()))
			}
			return out
		}
	}
	if sl, ok := ud.(*types.Slice); ok && isString(us) {
		s := x.(Str)
		eb := sl.Elem().Underlying().(*types.Basic)
		if eb.Kind() == types.Uint8 {
			out := make([]Value, s.Len())
			for i := range out {
				out[i] = in.strByte(s, i)
			}
			return out
		}
		// []rune(s)
		var out []Value
		i := 0
		for i < s.Len() {
			r, n := in.decodeRune(fr, s, i)
			out = append(out, r)
			i += n
		}
		if out == nil {
			out = []Value{}
		}
		return out
	}
	if _, ok := ud.(*types.Slice); ok {
		return x // slice to slice (named)
	}
	if _, ok := ud.(*types.Pointer); ok {
		return x
	}
	if b, ok := ud.(*types.Basic); ok && b.Kind() == types.UnsafePointer {
		in.unsupported("unsafe.Pointer conversion in %s", fr.fn)
	}
	t := x.(*Term)
	if fs, ok := isFloat(dst); ok {
		if _, ok := isFloat(src); ok {
			return ts.FPToFP(t, fs)
		}
		_, signed, _ := intInfo(src)
		return ts.IntToFP(t, signed, fs)
	}
	dw, dsigned, ok := intInfo(dst)
	if !ok {
		if isBool(dst) {
			return x
		}
		panic(fmt.Sprintf("conv %s -> %s", src, dst))
	}
	if _, ok := isFloat(src); ok {
		if t.IsConst() {
			// Go: out-of-range float->int is implementation-defined; mirror amd64 natively
			f := t.Float()
			return ts.BV(dw, convFloatToIntBits(f, dw, dsigned))
		}
		return ts.FPToInt(t, dsigned, dw)
	}
	sw, ssigned, _ := intInfo(src)
	switch {
	case dw == sw:
		return t
	case dw < sw:
		return ts.Extract(t, dw-1, 0)
	default:
		if ssigned {
			return ts.SExt(t, dw)
		}
		return ts.ZExt(t, dw)
	}
}

func convFloatToIntBits(f float64, w int, signed bool) uint64 {
	if signed {
		switch w {
		case 64:
			return uint64(int64(f))
		case 32:
			return uint64(int32(f))
		case 16:
			return uint64(int16(f))
		case 8:
			return uint64(int8(f))
		}
	}
	switch w {
	case 64:
		return uint64(f)
	case 32:
		return uint64(uint32(f))
	case 16:
		return uint64(uint16(f))
	}
	return uint64(uint8(f))
}

// runeToStr implements string(r) for an integer r.
func (in *Interp) runeToStr(fr *frame, r *Term, T types.Type) Str {
	ts := in.ts
	w, signed, _ := intInfo(T)
	if r.IsConst() {
		var v int64
		if signed {
			v = r.Int()
		} else {
			v = int64(r.C)
			if r.C > 0x10FFFF {
				v = 0xFFFD
			}
		}
		if v < 0 || v > 0x10FFFF {
			v = 0xFFFD
		}
		return Str{S: string(rune(v))}
	}
	// symbolic: split by encoded length
	k := func(v uint64) *Term { return ts.BV(w, v) }
	lt := func(v uint64) *Term {
		if signed {
			return ts.And(ts.Cmp(OSle, k(0), r), ts.Cmp(OSlt, r, k(v)))
		}
		return ts.Cmp(OUlt, r, k(v))
	}
	b8 := func(t *Term) *Term { return ts.Extract(t, 7, 0) }
	shr := func(n uint64) *Term { return ts.Bin(OLShr, r, k(n)) }
	or8 := func(t *Term, m uint64) *Term { return ts.Bin(OBOr, b8(t), ts.BV(8, m)) }
	and6 := func(t *Term) *Term { return ts.Bin(OBAnd, b8(t), ts.BV(8, 0x3f)) }
	cont := func(t *Term) *Term { return ts.Bin(OBOr, and6(t), ts.BV(8, 0x80)) }
	if in.branch(lt(0x80), nil) {
		return in.strFromBytes([]*Term{b8(r)})
	}
	if in.branch(lt(0x800), nil) {
		return in.strFromBytes([]*Term{or8(shr(6), 0xC0), cont(r)})
	}
	// surrogates and out of range -> U+FFFD
	valid3 := ts.And(lt(0x10000), ts.Not(ts.And(ts.Not(lt(0xD800)), lt(0xE000))))
	if in.branch(valid3, nil) {
		return in.strFromBytes([]*Term{or8(shr(12), 0xE0), cont(shr(6)), cont(r)})
	}
	valid4 := ts.And(ts.Not(lt(0x10000)), lt(0x110000))
	if in.branch(valid4, nil) {
		return in.strFromBytes([]*Term{or8(shr(18), 0xF0), cont(shr(12)), cont(shr(6)), cont(r)})
	}
	return Str{S: "�"}
}

// decodeRune decodes the rune starting at byte offset i of s. Returns a
// 32-bit term and the width in bytes. Symbolic lead bytes fork by class.
func (in *Interp) decodeRune(fr *frame, s Str, i int) (*Term, int) {
	ts := in.ts
	n := s.Len()
	if s.B == nil {
		r, sz := utf8.DecodeRuneInString(s.S[i:])
		return ts.BV(32, uint64(r)), sz
	}
	// window of up to 4 bytes; if all concrete decode natively
	end := i + 4
	if end > n {
		end = n
	}
	allc := true
	for j := i; j < end; j++ {
		if !s.B[j].IsConst() {
			allc = false
			break
		}
	}
	b0 := s.B[i]
	if b0.IsConst() {
		need := 1
		c := byte(b0.C)
		switch {
		case c < 0x80:
			need = 1
		case c >= 0xC2 && c <= 0xDF:
			need = 2
		case c >= 0xE0 && c <= 0xEF:
			need = 3
		case c >= 0xF0 && c <= 0xF4:
			need = 4
		}
		if need == 1 || allc {
			buf := make([]byte, 0, 4)
			for j := i; j < end && s.B[j].IsConst(); j++ {
				buf = append(buf, byte(s.B[j].C))
			}
			if need == 1 || len(buf) >= need || len(buf) == end-i {
				r, sz := utf8.DecodeRune(buf)
				return ts.BV(32, uint64(r)), sz
			}
		}
	}
	k8 := func(v uint64) *Term { return ts.BV(8, v) }
	z := func(t *Term) *Term { return ts.ZExt(t, 32) }
	isCont := func(t *Term) *Term {
		return ts.Eq(ts.Bin(OBAnd, t, k8(0xC0)), k8(0x80))
	}
	if in.branch(ts.Cmp(OUlt, b0, k8(0x80)), nil) {
		return z(b0), 1
	}
	bad := func() (*Term, int) { return ts.BV(32, 0xFFFD), 1 }
	// two-byte
	if in.branch(ts.And(ts.Cmp(OUle, k8(0xC2), b0), ts.Cmp(OUle, b0, k8(0xDF))), nil) {
		if i+1 >= n || !in.branch(isCont(s.B[i+1]), nil) {
			return bad()
		}
		r := ts.Bin(OBOr,
			ts.Bin(OShl, z(ts.Bin(OBAnd, b0, k8(0x1F))), ts.BV(32, 6)),
			z(ts.Bin(OBAnd, s.B[i+1], k8(0x3F))))
		return r, 2
	}
	if in.branch(ts.And(ts.Cmp(OUle, k8(0xE0), b0), ts.Cmp(OUle, b0, k8(0xEF))), nil) {
		if i+2 >= n {
			return bad()
		}
		b1, b2 := s.B[i+1], s.B[i+2]
		// accept ranges: E0: A0..BF ; ED: 80..9F ; others 80..BF
		lo := ts.Ite(ts.Eq(b0, k8(0xE0)), k8(0xA0), k8(0x80))
		hi := ts.Ite(ts.Eq(b0, k8(0xED)), k8(0x9F), k8(0xBF))
		ok := ts.AndN(ts.Cmp(OUle, lo, b1), ts.Cmp(OUle, b1, hi), isCont(b2))
		if !in.branch(ok, nil) {
			return bad()
		}
		r := ts.Bin(OBOr, ts.Bin(OBOr,
			ts.Bin(OShl, z(ts.Bin(OBAnd, b0, k8(0x0F))), ts.BV(32, 12)),
			ts.Bin(OShl, z(ts.Bin(OBAnd, b1, k8(0x3F))), ts.BV(32, 6))),
			z(ts.Bin(OBAnd, b2, k8(0x3F))))
		return r, 3
	}
	if in.branch(ts.And(ts.Cmp(OUle, k8(0xF0), b0), ts.Cmp(OUle, b0, k8(0xF4))), nil) {
		if i+3 >= n {
			return bad()
		}
		b1, b2, b3 := s.B[i+1], s.B[i+2], s.B[i+3]
		lo := ts.Ite(ts.Eq(b0, k8(0xF0)), k8(0x90), k8(0x80))
		hi := ts.Ite(ts.Eq(b0, k8(0xF4)), k8(0x8F), k8(0xBF))
		ok := ts.AndN(ts.Cmp(OUle, lo, b1), ts.Cmp(OUle, b1, hi), isCont(b2), isCont(b3))
		if !in.branch(ok, nil) {
			return bad()
		}
		r := ts.Bin(OBOr, ts.Bin(OBOr, ts.Bin(OBOr,
			ts.Bin(OShl, z(ts.Bin(OBAnd, b0, k8(0x07))), ts.BV(32, 18)),
			ts.Bin(OShl, z(ts.Bin(OBAnd, b1, k8(0x3F))), ts.BV(32, 12))),
			ts.Bin(OShl, z(ts.Bin(OBAnd, b2, k8(0x3F))), ts.BV(32, 6))),
			z(ts.Bin(OBAnd, b3, k8(0x3F))))
		return r, 4
	}
	return bad()
}

// ---- maps

func (in *Interp) lookup(fr *frame, ins *ssa.Lookup) Value {
	ts := in.ts
	x := fr.get(ins.X)
	if s, ok := x.(Str); ok { // string indexing is ssa.Lookup on strings
		idx := fr.get(ins.Index).(*Term)
		if !idx.IsConst() {
			return in.symIndexStr(fr, s, idx, ins.Index.Type())
		}
		i := in.index(fr, idx, ins.Index.Type(), s.Len())
		return in.strByte(s, i)
	}
	m := x.(*MapV)
	mt := ins.X.Type().Underlying().(*types.Map)
	key := fr.get(ins.Index)
	v, ok := in.mapGet(fr, m, mt, key)
	if ins.CommaOk {
		return Tuple{v, ok}
	}
	_ = ts
	return v
}

func (in *Interp) mapGet(fr *frame, m *MapV, mt *types.Map, key Value) (Value, *Term) {
	ts := in.ts
	zero := in.zero(mt.Elem())
	if m == nil || m.N == 0 {
		return zero, ts.False
	}
	ks, conc := keyString(key)
	if conc && m.NSym == 0 {
		if i, ok := m.Idx[ks]; ok {
			return copyVal(m.Ents[i].V), ts.True
		}
		return zero, ts.False
	}
	// symbolic: compare against every live entry
	type cand struct {
		c *Term
		v Value
	}
	var cands []cand
	for i := range m.Ents {
		e := &m.Ents[i]
		if !e.Live {
			continue
		}
		c := in.equals(fr, mt.Key(), key, e.K)
		if c == ts.False {
			continue
		}
		if c == ts.True {
			return copyVal(e.V), ts.True
		}
		cands = append(cands, cand{c, e.V})
	}
	if len(cands) == 0 {
		return zero, ts.False
	}
	// scalar values: build an ite chain without forking
	if zt, ok := zero.(*Term); ok {
		res := zt
		found := ts.False
		for i := len(cands) - 1; i >= 0; i-- {
			res = ts.Ite(cands[i].c, cands[i].v.(*Term), res)
			found = ts.Or(cands[i].c, found)
		}
		return res, found
	}
	// otherwise fork on which entry matches
	alts := make([]*Term, 0, len(cands)+1)
	none := ts.True
	for _, c := range cands {
		alts = append(alts, c.c)
		none = ts.And(none, ts.Not(c.c))
	}
	alts = append(alts, none)
	k := in.decideAmong(alts, "maplookup")
	if k == len(cands) {
		return zero, ts.False
	}
	return copyVal(cands[k].v), ts.True
}

func (in *Interp) mapUpdate(fr *frame, m *MapV, key Value, val Value) {
	ts := in.ts
	if in.frozenMaps != nil && in.frozenMaps[m] {
		in.frozenHits = append(in.frozenHits, "map update on frozen map")
	}
	if in.globalSlot != nil && in.globalMaps[m] {
		in.globalsDirty = true
	}
	ks, conc := keyString(key)
	if conc && m.NSym == 0 {
		if i, ok := m.Idx[ks]; ok {
			m.Ents[i].V = val
			return
		}
		m.Idx[ks] = len(m.Ents)
		m.Ents = append(m.Ents, mapEnt{K: key, V: val, Live: true})
		m.N++
		return
	}
	// symbolic key (or symbolic entries present): decide which entry it equals
	var alts []*Term
	var which []int
	none := ts.True
	for i := range m.Ents {
		e := &m.Ents[i]
		if !e.Live {
			continue
		}
		c := in.equals(fr, m.T.Key(), key, e.K)
		if c == ts.False {
			continue
		}
		alts = append(alts, c)
		which = append(which, i)
		none = ts.And(none, ts.Not(c))
	}
	alts = append(alts, none)
	k := in.decideAmong(alts, "mapupdate")
	if k < len(which) {
		m.Ents[which[k]].V = val
		return
	}
	if conc {
		m.Idx[ks] = len(m.Ents)
	} else {
		m.NSym++
	}
	m.Ents = append(m.Ents, mapEnt{K: key, V: val, Live: true})
	m.N++
}

func (in *Interp) mapDelete(fr *frame, m *MapV, key Value) {
	if m == nil {
		return
	}
	ts := in.ts
	ks, conc := keyString(key)
	if conc && m.NSym == 0 {
		if i, ok := m.Idx[ks]; ok {
			m.Ents[i].Live = false
			delete(m.Idx, ks)
			m.N--
		}
		return
	}
	var alts []*Term
	var which []int
	none := ts.True
	for i := range m.Ents {
		e := &m.Ents[i]
		if !e.Live {
			continue
		}
		c := in.equals(fr, m.T.Key(), key, e.K)
		if c == ts.False {
			continue
		}
		alts = append(alts, c)
		which = append(which, i)
		none = ts.And(none, ts.Not(c))
	}
	alts = append(alts, none)
	k := in.decideAmong(alts, "mapdelete")
	if k < len(which) {
		e := &m.Ents[which[k]]
		e.Live = false
		if eks, ok := keyString(e.K); ok {
			delete(m.Idx, eks)
		} else {
			m.NSym--
		}
		m.N--
	}
}

// ---- range

type iter struct {
	m     *MapV
	order []int
	pos   int
	s     Str
	isStr bool
}

func (in *Interp) rangeIter(fr *frame, x Value, T types.Type) Value {
	switch x := x.(type) {
	case Str:
		return &iter{s: x, isStr: true}
	case *MapV:
		it := &iter{m: x}
		if x != nil {
			for i := range x.Ents {
				if x.Ents[i].Live {
					it.order = append(it.order, i)
				}
			}
			in.permuteMapOrder(it)
		}
		return it
	}
	panic(fmt.Sprintf("range over %T", x))
}

func (it *iter) next(in *Interp, fr *frame) Value {
	ts := in.ts
	if it.isStr {
		if it.pos >= it.s.Len() {
			return Tuple{ts.False, ts.BV(64, 0), ts.BV(32, 0)}
		}
		i := it.pos
		r, n := in.decodeRune(fr, it.s, i)
		it.pos += n
		return Tuple{ts.True, ts.BV(64, uint64(i)), r}
	}
	for it.pos < len(it.order) {
		e := &it.m.Ents[it.order[it.pos]]
		it.pos++
		if !e.Live {
			continue
		}
		return Tuple{ts.True, e.K, copyVal(e.V)}
	}
	var zk, zv Value
	if it.m != nil {
		zk, zv = in.zero(it.m.T.Key()), in.zero(it.m.T.Elem())
	}
	return Tuple{ts.False, zk, zv}
}

// ---- builtins

func (in *Interp) callBuiltin(fr *frame, b *ssa.Builtin, args []Value, site ssa.Instruction) Value {
	ts := in.ts
	switch b.Name() {
	case "len":
		switch x := args[0].(type) {
		case Str:
			return ts.BV(64, uint64(x.Len()))
		case []Value:
			return ts.BV(64, uint64(len(x)))
		case Array:
			return ts.BV(64, uint64(len(x)))
		case *MapV:
			if x == nil {
				return ts.BV(64, 0)
			}
			return ts.BV(64, uint64(x.N))
		case *Value: // pointer to array
			if x == nil {
				return ts.BV(64, 0)
			}
			return ts.BV(64, uint64(len((*x).(Array))))
		case nil:
			return ts.BV(64, 0)
		}
		panic(fmt.Sprintf("len of %T", args[0]))
	case "cap":
		switch x := args[0].(type) {
		case []Value:
			return ts.BV(64, uint64(cap(x)))
		case Array:
			return ts.BV(64, uint64(len(x)))
		case *Value:
			return ts.BV(64, uint64(len((*x).(Array))))
		}
		panic(fmt.Sprintf("cap of %T", args[0]))
	case "append":
		dst := args[0].([]Value)
		switch src := args[1].(type) {
		case []Value:
			if len(src) == 0 {
				return dst
			}
			// copy elements (values are copied on append)
			if len(dst)+len(src) <= cap(dst) {
				// in-place growth aliases the backing array exactly as Go does
				n := len(dst)
				dst = dst[:n+len(src)]
				for i, v := range src {
					in.noteSliceWrite(&dst[n+i])
					dst[n+i] = copyVal(v)
				}
				return dst
			}
			nd := make([]Value, len(dst), growCap(cap(dst), len(dst)+len(src)))
			copy(nd, dst)
			for _, v := range src {
				nd = append(nd, copyVal(v))
			}
			return nd
		case Str:
			if src.Len() == 0 {
				return dst
			}
			nd := dst
			if len(dst)+src.Len() > cap(dst) {
				nd = make([]Value, len(dst), growCap(cap(dst), len(dst)+src.Len()))
				copy(nd, dst)
			}
			for i := 0; i < src.Len(); i++ {
				nd = append(nd, in.strByte(src, i))
			}
			return nd
		}
		panic(fmt.Sprintf("append %T", args[1]))
	case "copy":
		dst := args[0].([]Value)
		n := 0
		switch src := args[1].(type) {
		case []Value:
			n = len(dst)
			if len(src) < n {
				n = len(src)
			}
			tmp := make([]Value, n)
			for i := 0; i < n; i++ {
				tmp[i] = copyVal(src[i])
			}
			for i := 0; i < n; i++ {
				in.noteSliceWrite(&dst[i])
				dst[i] = tmp[i]
			}
		case Str:
			n = len(dst)
			if src.Len() < n {
				n = src.Len()
			}
			for i := 0; i < n; i++ {
				in.noteSliceWrite(&dst[i])
				dst[i] = in.strByte(src, i)
			}
		}
		return ts.BV(64, uint64(n))
	case "delete":
		in.mapDelete(fr, args[0].(*MapV), args[1])
		return nil
	case "panic":
		in.goPanic(fr, args[0], in.panicMessage(fr, args[0]))
	case "recover":
		// find the panicking frame: the caller of the deferred function
		for f := fr; f != nil; f = f.caller {
			if f.panicking {
				f.panicking = false
				return f.panicVal.V
			}
		}
		return Iface{}
	case "print", "println":
		return nil
	case "min", "max":
		r := args[0].(*Term)
		T := site.(*ssa.Call).Type()
		for _, a := range args[1:] {
			var less Value
			if b.Name() == "min" {
				less = in.binop(fr, token.LSS, T, a, r, T)
			} else {
				less = in.binop(fr, token.GTR, T, a, r, T)
			}
			r = ts.Ite(less.(*Term), a.(*Term), r)
		}
		return r
	case "clear":
		switch x := args[0].(type) {
		case *MapV:
			if x != nil {
				x.Ents, x.Idx, x.N, x.NSym = nil, map[string]int{}, 0, 0
			}
		}
		return nil
	case "ssa:wrapnilchk":
		if isNilValue(args[0]) {
			in.runtimePanic(fr, "value method called using nil pointer")
		}
		return args[0]
	}
	in.unsupported("builtin %s", b.Name())
	return nil
}

func growCap(old, need int) int {
	c := old * 2
	if c < need {
		c = need
	}
	if c < 4 {
		c = 4
	}
	return c
}

func (in *Interp) noteSliceWrite(p *Value) {
	if in.frozen != nil && in.frozen[p] {
		in.frozenHits = append(in.frozenHits, "slice element write to frozen object")
	}
	if in.globalSlot != nil && in.globalSlot[p] {
		in.globalsDirty = true
	}
}
