package influxql

// C16 — statement separation, whitespace and comments do not change meaning.

func c16WS() byte {
	return vfIteByte(vfBool(), ' ', vfIteByte(vfBool(), '\t', vfIteByte(vfBool(), '\n', '\r')))
}

// c16Filler returns a replacement for one whitespace gap.
func c16Filler(tier int) []byte {
	switch vfChoice(6) {
	case 0: // one arbitrary whitespace character (space, tab, LF, CR)
		return []byte{c16WS()}
	case 1: // two arbitrary whitespace characters
		return []byte{c16WS(), c16WS()}
	case 2:
		return []byte("\r\n")
	case 3: // line comment flanked by whitespace
		c := vfByte()
		vfAssume(c < 0x80)
		vfAssume(c != 0)
		vfAssume(c != '\n')
		vfAssume(c != '\r')
		// the comment ends at LF, at a lone CR, or at CRLF
		if vfChoice(3) == 2 {
			return []byte{' ', '-', '-', c, '\r', '\n', c16WS()}
		}
		return []byte{' ', '-', '-', c, vfIteByte(vfBool(), '\n', '\r'), c16WS()}
	case 4: // block comment flanked by whitespace
		c := vfByte()
		vfAssume(c < 0x80)
		vfAssume(c != 0)
		vfAssume(c != '*')
		vfAssume(c != '\r')
		return []byte{c16WS(), '/', '*', c, '*', '/', ' '}
	default: // empty block comment and a star inside
		return []byte(" /***/ ")
	}
}

func c16Gap(kind int, tier int) { c16GapB(kind, tier, 0) }

// gaps the default statement shapes do not have: after DISTINCT, inside calls, around casts, fill, ORDER BY,
// IN lists, ON clauses, time arithmetic (fixed texts; every single blank is a gap)
var c16Special = []string{
	"SELECT DISTINCT a FROM m",
	"SELECT count( DISTINCT a ) FROM m",
	"SELECT mean( a ) , b AS c INTO t FROM m GROUP BY time( 1s , 2s ) , h fill( 0 ) ORDER BY time DESC LIMIT 1 OFFSET 2 SLIMIT 3 SOFFSET 4 tz( 'UTC' )",
	"SELECT a FROM m WHERE time > now() - 1h AND ( b = 'x' OR c =~ /r/ )",
	"SELECT a FROM ( SELECT b FROM m ) , n",
	"SHOW TAG VALUES ON d FROM m WITH KEY IN ( a , b ) WHERE c = 1 LIMIT 1",
	"SHOW FIELD KEY EXACT CARDINALITY ON d FROM m",
	"GRANT ALL PRIVILEGES ON d TO u",
	"REVOKE READ ON d FROM u",
	"CREATE CONTINUOUS QUERY q ON d RESAMPLE EVERY 1s FOR 2s BEGIN SELECT mean( a ) INTO t FROM m GROUP BY time( 1s ) END",
	"CREATE SUBSCRIPTION s ON d.r DESTINATIONS ANY 'a' , 'b'",
	"ALTER RETENTION POLICY r ON d DURATION 1h REPLICATION 1 SHARD DURATION 1h DEFAULT",
	"EXPLAIN ANALYZE SELECT a FROM m",
	"KILL QUERY 1 ON h",
	"DROP SHARD 1",
	"SET PASSWORD FOR u = 'p'",
}

func vfH_C16_specialgaps(tier int) {
	canonical := c16Special[vfChoice(len(c16Special))]
	var gaps []int
	for i := 0; i < len(canonical); i++ {
		if canonical[i] == ' ' {
			gaps = append(gaps, i)
		}
	}
	off := gaps[vfChoice(len(gaps))]
	fill := c16Filler(tier)
	variant := canonical[:off] + string(fill) + canonical[off+1:]
	vfNote(variant)
	q1, err1 := ParseQuery(canonical)
	vfAssert(err1 == nil, "C16/specialgaps/canonical-text-is-accepted")
	if err1 != nil {
		return
	}
	q2, err2 := ParseQuery(variant)
	vfAssert(err2 == nil, "C16/specialgaps/whitespace-or-comment-variant-is-accepted")
	if err2 != nil {
		return
	}
	vfAssert(vfDeepEqual(q1, q2), "C16/specialgaps/whitespace-or-comment-variant-has-the-same-ast")
	vfReach("C16_specialgaps/ok")
}

func c16GapB(kind int, tier int, budget int) {
	g := &vfGen{tier: tier, budget: budget, plainWS: true, plainKW: true}
	name := vfStmtGens[kind].name
	vfStmtGens[kind].gen(g)
	canonical := g.text()
	if len(g.gaps) == 0 {
		vfReach("C16_" + name + "/ok")
		return
	}
	gi := vfChoice(len(g.gaps))
	off := g.gaps[gi]
	fill := c16Filler(tier)
	variant := canonical[:off] + string(fill) + canonical[off+1:]
	vfNote(variant)
	q1, err1 := ParseQuery(canonical)
	if err1 != nil {
		return // acceptance of the canonical text is C01's subject
	}
	q2, err2 := ParseQuery(variant)
	vfAssert(err2 == nil, "C16/"+name+"/whitespace-or-comment-variant-is-accepted")
	if err2 != nil {
		return
	}
	vfAssert(vfDeepEqual(q1, q2), "C16/"+name+"/whitespace-or-comment-variant-has-the-same-ast")
	vfReach("C16_" + name + "/ok")
}

// separators: statements joined by semicolons parse to exactly those statements
func vfH_C16_separators(tier int) {
	pool := []string{"SELECT a FROM m", "SHOW DATABASES", "DROP MEASUREMENT x", "CREATE DATABASE d WITH DURATION 1h", "DELETE FROM m WHERE k = 'v;w'"}
	n := 1 + vfChoice(3)
	var stmts []string
	for i := 0; i < n; i++ {
		stmts = append(stmts, pool[vfChoice(len(pool))])
	}
	text := ""
	// leading separators / whitespace
	switch vfChoice(3) {
	case 1:
		text = ";"
	case 2:
		text = string([]byte{c16WS()}) + ";;"
	}
	missing := false
	for i, s := range stmts {
		if i > 0 {
			switch vfChoice(4) {
			case 0:
				text += ";"
			case 1:
				text += " ; "
			case 2:
				text += ";" + string([]byte{c16WS()}) + ";"
			default:
				text += " " // no separator at all
				missing = true
			}
		}
		text += s
	}
	switch vfChoice(3) {
	case 1:
		text += ";"
	case 2:
		text += " ;; " + string([]byte{c16WS()})
	}
	vfNote(text)
	q, err := ParseQuery(text)
	if missing {
		vfAssert(err != nil, "C16/separators/missing-separator-is-an-error")
		vfReach("C16_separators/rejected")
		return
	}
	vfAssert(err == nil, "C16/separators/accepted")
	if err != nil {
		return
	}
	vfAssert(len(q.Statements) == n, "C16/separators/exactly-those-statements")
	if len(q.Statements) != n {
		return
	}
	for i, s := range stmts {
		alone, err := ParseStatement(s)
		if err == nil {
			vfAssert(vfDeepEqual(q.Statements[i], alone), "C16/separators/each-identical-to-parsing-it-alone")
		}
	}
	vfReach("C16_separators/ok")
}
// every statement family, in every clause variant, followed by another statement: the first
// statement ends where it ends alone and the separator is honoured
func vfH_C16_sequence(tier int) {
	kind := vfChoice(len(vfStmtGens))
	g := &vfGen{tier: tier, budget: 1, sub: 1 + tier, plainWS: true, plainKW: true}
	vfStmtGens[kind].gen(g)
	first := g.text()
	var second, sep string
	if tier == 0 {
		k := vfChoice(2)
		second, sep = []string{"SHOW DATABASES", "SELECT a FROM m"}[k], []string{";", " ;\n"}[k]
	} else {
		second = []string{"SHOW DATABASES", "SELECT a FROM m"}[vfChoice(2)]
		sep = []string{";", " ; ", ";\n"}[vfChoice(3)]
	}
	text := first + sep + second
	vfNote(text)
	alone, err := ParseStatement(first)
	if err != nil {
		vfReach("C16_sequence/first-rejected")
		return
	}
	q, err := ParseQuery(text)
	vfAssert(err == nil, "C16/sequence/"+vfStmtGens[kind].name+"-followed-by-a-statement-is-accepted")
	if err != nil {
		return
	}
	vfAssert(len(q.Statements) == 2, "C16/sequence/exactly-two-statements")
	if len(q.Statements) != 2 {
		return
	}
	vfAssert(vfDeepEqual(q.Statements[0], alone), "C16/sequence/first-identical-to-parsing-it-alone")
	other, _ := ParseStatement(second)
	vfAssert(vfDeepEqual(q.Statements[1], other), "C16/sequence/second-identical-to-parsing-it-alone")
	vfReach("C16_sequence/ok")
}
func vfH_C16_select(tier int) { c16Gap(0, tier) }
func vfH_C16_explain(tier int) { c16Gap(1, tier) }
func vfH_C16_delete(tier int) { c16Gap(2, tier) }
func vfH_C16_dropseries(tier int) { c16Gap(3, tier) }
func vfH_C16_showseries(tier int) { c16Gap(4, tier) }
func vfH_C16_showseriescard(tier int) { c16Gap(5, tier) }
func vfH_C16_showmeascard(tier int) { c16Gap(6, tier) }
func vfH_C16_showtagkeycard(tier int) { c16Gap(7, tier) }
func vfH_C16_showfieldkeycard(tier int) { c16Gap(8, tier) }
func vfH_C16_showtagvalues(tier int) { c16Gap(9, tier) }
func vfH_C16_showtagvaluescard(tier int) { c16Gap(10, tier) }
func vfH_C16_showtagkeys(tier int) { c16Gap(11, tier) }
func vfH_C16_showfieldkeys(tier int) { c16Gap(12, tier) }
func vfH_C16_showmeasurements(tier int) { c16Gap(13, tier) }
func vfH_C16_showrp(tier int) { c16Gap(14, tier) }
func vfH_C16_showstats(tier int) { c16Gap(15, tier) }
func vfH_C16_showdiag(tier int) { c16Gap(16, tier) }
func vfH_C16_showgrants(tier int) { c16Gap(17, tier) }
func vfH_C16_showsimple(tier int) { c16Gap(18, tier) }
func vfH_C16_createdb(tier int) { c16Gap(19, tier) }
func vfH_C16_createrp(tier int) { c16Gap(20, tier) }
func vfH_C16_alterrp(tier int) { c16Gap(21, tier) }
func vfH_C16_users(tier int) { c16Gap(22, tier) }
func vfH_C16_grantrevoke(tier int) { c16Gap(23, tier) }
func vfH_C16_dropsimple(tier int) { c16Gap(24, tier) }
func vfH_C16_createsub(tier int) { c16Gap(25, tier) }
func vfH_C16_createcq(tier int) { c16Gap(26, tier) }
