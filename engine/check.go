package main

// `symgo check <property> <tier>`: explore every harness of the property,
// replay counterexamples natively, classify against known findings, write
// evidence, print verdict lines, set the exit code.

import (
	"crypto/sha1"
	"encoding/json"
	"flag"
	"fmt"
	"os"
	"path/filepath"
	"regexp"
	"sort"
	"strconv"
	"strings"
	"time"
)

type KnownFinding struct {
	Property string `json:"property"`
	Harness  string `json:"harness,omitempty"`
	Match    string `json:"match"` // regexp on "<harness>: <message>"
	What     string `json:"what"`
	Status   string `json:"status"` // "known" or "fixed"
	Commit   string `json:"commit,omitempty"`
}

type KnownFile struct {
	Findings []KnownFinding `json:"findings"`
}

type TierSpec struct {
	Tier      int
	Name      string
	Workers   int
	MaxSteps  int64
	TimeoutMs int
	Budget    time.Duration
	Samples   int
	CrossEvery int
}

// properties whose thorough tier keeps the quick bounds (see DESIGN section 10)
var thoroughAtQuickBounds = map[string]bool{"C08": true, "C09": true, "C16": true, "C17": true}

type propSpec struct {
	Level     string
	MapOrders bool
	MaxSteps  int64
	Note      string
}

func cmdCheck(argv []string) {
	fs := flag.NewFlagSet("check", flag.ExitOnError)
	repo := fs.String("repo", "/repo", "repository")
	verif := fs.String("verif", "/verif", "verif root")
	workers := fs.Int("workers", 16, "workers")
	only := fs.String("only", "", "restrict to harnesses containing this substring")
	budget := fs.Duration("budget", 0, "wall-clock budget override")
	verbose := fs.Bool("v", false, "verbose")
	noReplay := fs.Bool("noreplay", false, "skip native replay (debug)")
	noEvidence := fs.Bool("noevidence", false, "do not write an evidence file (self-check)")
	fs.Parse(argv)
	if fs.NArg() < 1 {
		fmt.Fprintln(os.Stderr, "usage: symgo check [flags] <property> [quick|thorough]")
		os.Exit(2)
	}
	prop := fs.Arg(0)
	tierName := "quick"
	if fs.NArg() > 1 {
		tierName = fs.Arg(1)
	}
	if t := os.Getenv("VERIF_TIER"); t != "" && fs.NArg() < 2 {
		tierName = t
	}
	seed := 0
	if s := os.Getenv("VERIF_SEED"); s != "" {
		seed, _ = strconv.Atoi(s)
	}
	ts := TierSpec{Tier: 0, Name: "quick", Workers: *workers, MaxSteps: 3_000_000, TimeoutMs: 10000, Budget: 12 * time.Minute, Samples: 6, CrossEvery: 20}
	if tierName == "thorough" {
		ts = TierSpec{Tier: 1, Name: "thorough", Workers: *workers, MaxSteps: 20_000_000, TimeoutMs: 60000, Budget: 60 * time.Minute, Samples: 12, CrossEvery: 1}
	}
	if *budget > 0 {
		ts.Budget = *budget
	}
	if tierName == "thorough" && thoroughAtQuickBounds[prop] {
		// deeper bounds do not fit the budget for this property (DESIGN section 10): the thorough run
		// explores the quick bounds with every unsat verdict cross-checked and twice the native samples
		ts.Tier = 0
	}
	start := time.Now()
	harnessDir := filepath.Join(*verif, "harness")
	ld, err := loadRepo(*repo, harnessDir, "verif")
	if err != nil {
		fmt.Fprintln(os.Stderr, "load:", err)
		os.Exit(2)
	}
	loadS := time.Since(start).Seconds()
	hs := harnessNames(ld, "vfH_"+prop+"_")
	if *only != "" {
		var f []string
		for _, h := range hs {
			if strings.Contains(h, *only) {
				f = append(f, h)
			}
		}
		hs = f
	}
	if len(hs) == 0 {
		fmt.Fprintf(os.Stderr, "no harness for property %s\n", prop)
		os.Exit(2)
	}
	spec := propSpecs[prop]
	cfg := &RunConfig{MaxSteps: ts.MaxSteps, Summaries: true, TimeoutMs: ts.TimeoutMs, Solver: "z3", Verbose: *verbose,
		Args: []int{ts.Tier}, MapOrders: spec.MapOrders, CrossCheck: "z3-new", CrossEvery: ts.CrossEvery, SampleModels: ts.Samples}
	if spec.MaxSteps > 0 {
		cfg.MaxSteps = spec.MaxSteps
	}
	sum, err := runHarnesses(ld, cfg, hs, ts.Workers, 0, start.Add(ts.Budget))
	if err != nil {
		fmt.Fprintln(os.Stderr, "run:", err)
		os.Exit(2)
	}

	// ---- known findings
	var known KnownFile
	if b, err := os.ReadFile(filepath.Join(*verif, "known_findings.json")); err == nil {
		json.Unmarshal(b, &known)
	}
	matchKnown := func(h, msg string) *KnownFinding {
		for i := range known.Findings {
			k := &known.Findings[i]
			if k.Property != prop || k.Status != "known" {
				continue
			}
			if k.Harness != "" && k.Harness != h {
				continue
			}
			if ok, _ := regexp.MatchString(k.Match, h+": "+msg); ok {
				return k
			}
		}
		return nil
	}

	// ---- collect distinct violations (harness, kind, message) with up to 3 vectors each
	type vkey struct{ h, kind, msg string }
	groups := map[vkey][]Violation{}
	var order []vkey
	for _, pr := range sum.Violations {
		for _, v := range pr.Violations {
			k := vkey{pr.Harness, v.Kind, v.Msg}
			if _, ok := groups[k]; !ok {
				order = append(order, k)
			}
			if len(groups[k]) < 3 {
				groups[k] = append(groups[k], v)
			}
		}
	}
	var cases []ReplayCase
	caseKey := map[string]vkey{}
	for _, k := range order {
		for i, v := range groups[k] {
			id := fmt.Sprintf("viol-%x-%d", sha1.Sum([]byte(k.h+"|"+k.kind+"|"+k.msg)), i)
			id = id[:24] + fmt.Sprintf("-%d", i)
			cases = append(cases, ReplayCase{ID: id, Harness: k.h, Tier: ts.Tier, Vector: v.Vector})
			caseKey[id] = k
		}
	}
	// sample passing paths for differential validation of the interpreter
	sampleIDs := map[string]PathReport{}
	for i, s := range sum.Samples {
		if s.Vector == nil {
			continue
		}
		id := fmt.Sprintf("sample-%d", i)
		cases = append(cases, ReplayCase{ID: id, Harness: s.Harness, Tier: ts.Tier, Vector: s.Vector})
		sampleIDs[id] = s
	}
	var results map[string]ReplayResult
	replayLog := ""
	replayS := 0.0
	if !*noReplay && len(cases) > 0 {
		t0 := time.Now()
		var plain []ReplayCase
		results = map[string]ReplayResult{}
		for _, c := range cases {
			if prop == "C17" && strings.HasPrefix(c.ID, "viol-") {
				// non-interference violations are confirmed under the race detector, one case per run
				c.Race = true
				r1, l1, e1 := replayNative(*repo, harnessDir, ld, []ReplayCase{c}, 10*time.Minute)
				if e1 != nil {
					fmt.Fprintln(os.Stderr, e1)
				}
				replayLog += l1
				for k, v := range r1 {
					results[k] = v
				}
				continue
			}
			plain = append(plain, c)
		}
		r2, l2, err := replayNative(*repo, harnessDir, ld, plain, 10*time.Minute)
		replayLog += l2
		for k, v := range r2 {
			results[k] = v
		}
		replayS = time.Since(t0).Seconds()
		if err != nil {
			fmt.Fprintln(os.Stderr, err)
		}
	}

	// ---- classify
	exit := 0
	var lines []string
	confirmed, knownHit, mismatched := 0, 0, 0
	replayDir := filepath.Join(*verif, "replays", prop)
	var knownPrinted = map[string]bool{}
	for _, k := range order {
		// a violation group is confirmed when at least one of its vectors reproduces natively
		var okCase *ReplayCase
		var okRes ReplayResult
		tried := 0
		for i := range cases {
			c := &cases[i]
			if caseKey[c.ID] != k {
				continue
			}
			tried++
			r, have := results[c.ID]
			if !have {
				continue
			}
			repro := false
			switch k.kind {
			case "assert":
				repro = r.Outcome == "assert" && len(r.Failures) > 0 && r.Failures[len(r.Failures)-1] == k.msg
				if prop == "C17" && r.Outcome == "race" {
					repro = true
				}
			case "panic":
				repro = r.Outcome == "panic"
			case "steplimit":
				repro = r.Outcome == "timeout"
			}
			if repro {
				okCase, okRes = c, r
				break
			}
		}
		full := k.h + ": " + k.msg
		if *noReplay {
			lines = append(lines, fmt.Sprintf("UNREPLAYED %s kind=%s", full, k.kind))
			continue
		}
		if okCase == nil {
			if k.kind == "steplimit" {
				// an unwinding-bound failure that terminates natively is a bound too small, not a finding
				lines = append(lines, fmt.Sprintf("INCONCLUSIVE property=%s unwinding bound exceeded but native run terminates: %s", prop, full))
				if exit == 0 {
					exit = 2
				}
				continue
			}
			mismatched++
			detail := ""
			for i := range cases {
				if caseKey[cases[i].ID] == k {
					if r, ok := results[cases[i].ID]; ok {
						detail = fmt.Sprintf("native outcome=%s msg=%q", r.Outcome, r.Msg)
					}
				}
			}
			lines = append(lines, fmt.Sprintf("ENGINE-MISMATCH property=%s %s (kind=%s) did not reproduce natively; %s", prop, full, k.kind, detail))
			if exit == 0 {
				exit = 2
			}
			continue
		}
		confirmed++
		if kf := matchKnown(k.h, k.msg); kf != nil {
			knownHit++
			if !knownPrinted[kf.What] {
				knownPrinted[kf.What] = true
				lines = append(lines, fmt.Sprintf("KNOWN-FINDING: property=%s %s", prop, kf.What))
			}
			continue
		}
		os.MkdirAll(replayDir, 0o755)
		h := sha1.Sum([]byte(full))
		rp := filepath.Join(replayDir, fmt.Sprintf("%x.json", h[:6]))
		rb, _ := json.MarshalIndent(map[string]interface{}{"property": prop, "harness": okCase.Harness, "tier": ts.Tier,
			"vector": okCase.Vector, "kind": k.kind, "message": k.msg, "native": okRes}, "", " ")
		os.WriteFile(rp, rb, 0o644)
		lines = append(lines, fmt.Sprintf("VIOLATION property=%s replay=%s", prop, rp))
		lines = append(lines, fmt.Sprintf("  %s [%s] native: %s %s", full, k.kind, okRes.Outcome, okRes.Msg))
		for _, n := range okRes.Notes {
			lines = append(lines, "    "+n)
		}
		exit = 1
	}
	// differential validation of sampled passing paths
	validated, diffBad := 0, 0
	for id, s := range sampleIDs {
		r, ok := results[id]
		if !ok {
			continue
		}
		if r.Outcome == "done" && equalStrs(r.Labels, s.Labels) && equalStrs(dropNative(r.Notes), cleanNotes(s.Notes)) {
			validated++
		} else {
			diffBad++
			lines = append(lines, fmt.Sprintf("ENGINE-MISMATCH property=%s sample path of %s differs natively: outcome=%s msg=%q labels=%v/%v notes=%v/%v", prop, s.Harness, r.Outcome, r.Msg, r.Labels, s.Labels, r.Notes, cleanNotes(s.Notes)))
			if exit == 0 {
				exit = 2
			}
		}
	}
	// inconclusive material
	nIncon := 0
	for _, p := range sum.Problems {
		if p.Outcome == "unsupported" {
			nIncon++
			lines = append(lines, fmt.Sprintf("INCONCLUSIVE property=%s %s: unsupported: %s %v", prop, p.Harness, p.Msg, cleanNotes(p.Notes)))
		}
		for _, m := range p.Inconclusive {
			nIncon++
			lines = append(lines, fmt.Sprintf("INCONCLUSIVE property=%s %s: %s", prop, p.Harness, m))
		}
	}
	if sum.Truncated {
		nIncon++
		lines = append(lines, fmt.Sprintf("INCONCLUSIVE property=%s exploration truncated by budget (%s)", prop, ts.Budget))
	}
	if len(sum.SolverErrors) > 0 {
		nIncon++
		lines = append(lines, fmt.Sprintf("INCONCLUSIVE property=%s solver errors: %s", prop, sum.SolverErrors[0]))
	}
	// vacuity: every harness must have completed paths, and labels must have been reached
	perH := map[string]int{}
	for l, n := range sum.Labels {
		for _, h := range hs {
			if strings.HasPrefix(l, strings.TrimPrefix(h, "vfH_")) {
				perH[h] += n
			}
		}
	}
	for _, h := range hs {
		if perH[h] == 0 {
			nIncon++
			lines = append(lines, fmt.Sprintf("INCONCLUSIVE property=%s harness %s reached none of its labels (vacuous)", prop, h))
		}
	}
	if nIncon > 0 && exit == 0 {
		exit = 2
	}

	// ---- evidence
	level := spec.Level
	if level == "" {
		level = "model_checking"
	}
	var samples []interface{}
	for _, s := range sum.Samples {
		samples = append(samples, map[string]interface{}{"harness": s.Harness, "decisions": s.Prefix, "labels": s.Labels,
			"notes": cleanNotes(s.Notes), "nondet_vars": s.NSymNondet, "path_condition_conjuncts": s.PCLen,
			"asserts_discharged_by_solver": s.AssertsOK, "model": s.Vector})
	}
	if len(samples) == 0 {
		samples = append(samples, "no completed symbolic path")
	}
	transitions := sum.BranchQ + sum.FactHits
	if transitions < 1 {
		transitions = 1
	}
	cov := map[string]interface{}{
		"states":                        sum.Paths,
		"transitions":                   transitions,
		"traces_validated_against_impl": validated,
		"samples":                       samples,
		"evaluations":                   sum.AssertsOK + sum.AssertsTriv,
		"distinct_nontrivial":           sum.DistinctSym,
		"rule":                          "evaluations = assertions decided (by a solver query or by the solver-established path condition); one distinct case = one explored path class (distinct decision vector) of a harness; non-trivial = the path completed, has at least one symbolic input variable and a non-empty solver-checked path condition (so its verdict covers a set of inputs, not one input)",
		"exhaustive":                    !sum.Truncated && nIncon == 0,
		"explanation":                   spec.Note,
		"harnesses":                     hs,
		"paths":                         sum.Paths,
		"path_outcomes":                 sum.Outcomes,
		"labels_reached":                sum.Labels,
		"assertions_discharged_by_solver": sum.AssertsOK,
		"assertions_trivially_true":     sum.AssertsTriv,
		"queries":                       map[string]int{"branch_feasibility": sum.BranchQ, "assertion": sum.AssertQ, "sat": sum.Sat, "unsat": sum.Unsat, "unknown": sum.Unknown, "cross_checked_unsat": sum.CrossChecked, "cross_check_unknown": sum.CrossUnknown},
		"solver_s":                      sum.SolverS,
		"solvers":                       []string{"z3 4.8.12 (deciding)", "z3-new 5.1.0 (cross-check of unsat assertion verdicts)"},
		"instructions_interpreted":      sum.Instrs,
		"max_path_instructions":         sum.MaxSteps,
		"unwinding_bound_instructions":  cfg.MaxSteps,
		"functions_encoded":             sum.Functions,
		"functions_encoded_count":       len(sum.Functions),
		"stubs_used":                    sum.Stubs,
		"inconclusive":                  nIncon,
		"violations_confirmed":          confirmed,
		"known_findings_hit":            knownHit,
		"engine_mismatches":             mismatched + diffBad,
		"load_s":                        loadS,
		"replay_s":                      replayS,
		"bounds":                        boundsFor(prop, ts, tierName),
	}
	if sum.RegexQ > 0 {
		cov["programs"] = sum.RegexQ
		cov["disagreements_checked"] = confirmed + mismatched
		cov["regex_language_queries"] = sum.RegexQ
	}
	if cov["explanation"] == "" {
		cov["explanation"] = "bounded symbolic execution of the real code (go/ssa interpreter); every path class of every harness was explored, branch feasibility and assertions decided by SMT queries; see MANIFEST level_claimed for what the harnesses quantify over"
	}
	ev := map[string]interface{}{
		"property_id": prop, "tier": ts.Name, "seed": seed, "level": level, "coverage": cov,
		"assumptions": assumptionsFor(sum),
		"wall_s":      time.Since(start).Seconds(),
		"violations":  confirmed - knownHit,
	}
	if !*noEvidence {
		os.MkdirAll(filepath.Join(*verif, "evidence"), 0o755)
		eb, _ := json.MarshalIndent(ev, "", " ")
		os.WriteFile(filepath.Join(*verif, "evidence", prop+".json"), eb, 0o644)
	}

	sort.SliceStable(lines, func(i, j int) bool { return false })
	for _, l := range lines {
		fmt.Println(l)
	}
	fmt.Printf("SUMMARY property=%s tier=%s harnesses=%d paths=%d asserts_solver=%d asserts_trivial=%d queries=%d unknown=%d confirmed=%d known=%d inconclusive=%d validated_samples=%d wall=%.1fs exit=%d\n",
		prop, ts.Name, len(hs), sum.Paths, sum.AssertsOK, sum.AssertsTriv, sum.BranchQ+sum.AssertQ, sum.Unknown, confirmed, knownHit, nIncon, validated, time.Since(start).Seconds(), exit)
	if *verbose && replayLog != "" {
		fmt.Fprintln(os.Stderr, replayLog)
	}
	os.Exit(exit)
}

func equalStrs(a, b []string) bool {
	if len(a) != len(b) {
		return false
	}
	for i := range a {
		// the native side reports through JSON, which replaces invalid UTF-8 by U+FFFD
		if validUTF8PerByte(a[i]) != validUTF8PerByte(b[i]) {
			return false
		}
	}
	return true
}

// validUTF8PerByte replaces every invalid byte by U+FFFD (what encoding/json does; strings.ToValidUTF8 collapses runs).
func validUTF8PerByte(s string) string {
	var sb strings.Builder
	for _, r := range s { // ranging yields U+FFFD once per invalid byte
		sb.WriteRune(r)
	}
	return sb.String()
}

// cleanNotes keeps harness notes ("note: ...") and drops engine diagnostics.
func cleanNotes(ns []string) []string {
	var out []string
	for _, n := range ns {
		if strings.HasPrefix(n, "note: ") {
			out = append(out, n[6:])
		}
	}
	return out
}

func dropNative(ns []string) []string {
	var out []string
	for _, n := range ns {
		if !strings.HasPrefix(n, "native: ") {
			out = append(out, n)
		}
	}
	return out
}

func assumptionsFor(sum *RunSummary) []string {
	out := []string{
		"bounded: verdicts hold for all values of the symbolic inputs within the harness bounds only (see coverage.bounds)",
		"string lengths, slice lengths, heap shape and dynamic types are concrete on every path; shapes are enumerated by the harness",
		"library functions listed in coverage.stubs_used are models (native pass-through on concrete arguments, symbolic models otherwise); they are part of the trusted base",
		"z3 4.8.12 verdicts; unsat assertion verdicts cross-checked by z3-new 5.1.0 (sampled in quick tier, all in thorough)",
		"counterexamples are reported only after native replay through go test -overlay",
	}
	return out
}

var propSpecs = map[string]propSpec{
	"C12": {MapOrders: true},
	"C11": {Level: "translation_validation"},
	"C17": {Level: "other", Note: "Reduction, not schedule enumeration: each listed operation is executed symbolically (all inputs within the harness bounds) under a write monitor that freezes package state and everything reachable from the shared AST; zero stores into frozen objects on every path means the operation only reads shared memory. Operations that only read shared memory are race-free under every schedule (Go memory model) and return what they return when called alone. No interleaving is executed; a reported store is confirmed natively with go test -race."},
}
var boundsText = map[string]string{}

// boundsFor states which bounds this run explored.
func boundsFor(prop string, ts TierSpec, tierName string) string {
	b := fmt.Sprintf("tier %s: harnesses called with tier argument %d (the bounds per property are in MANIFEST.json level_claimed.text and DESIGN.md section 10; the first figure there is tier 0, the one in parentheses tier 1); at most %d interpreted instructions per path; wall-clock budget %s; solver caps %d ms per query", tierName, ts.Tier, ts.MaxSteps, ts.Budget, ts.TimeoutMs)
	if tierName == "thorough" && ts.Tier == 0 {
		b += "; this property's thorough run keeps the quick bounds and adds cross-checking of every unsat verdict"
	}
	if t := boundsText[prop]; t != "" {
		b += "; " + t
	}
	return b
}

func cmdSelfcheck(argv []string) {}

// cmdReplay re-runs a saved counterexample natively: exit 1 if it reproduces.
func cmdReplay(argv []string) {
	fs := flag.NewFlagSet("replay", flag.ExitOnError)
	repo := fs.String("repo", "/repo", "repository")
	verif := fs.String("verif", "/verif", "verif root")
	fs.Parse(argv)
	if fs.NArg() < 1 {
		fmt.Fprintln(os.Stderr, "usage: symgo replay <file>")
		os.Exit(2)
	}
	b, err := os.ReadFile(fs.Arg(0))
	if err != nil {
		fmt.Fprintln(os.Stderr, err)
		os.Exit(2)
	}
	var rec struct {
		Property string     `json:"property"`
		Harness  string     `json:"harness"`
		Tier     int        `json:"tier"`
		Vector   []VecEntry `json:"vector"`
		Kind     string     `json:"kind"`
		Message  string     `json:"message"`
	}
	if err := json.Unmarshal(b, &rec); err != nil {
		fmt.Fprintln(os.Stderr, err)
		os.Exit(2)
	}
	harnessDir := filepath.Join(*verif, "harness")
	ld, err := loadRepo(*repo, harnessDir, "verif")
	if err != nil {
		fmt.Fprintln(os.Stderr, "load:", err)
		os.Exit(2)
	}
	res, log, err := replayNative(*repo, harnessDir, ld, []ReplayCase{{ID: "r", Harness: rec.Harness, Tier: rec.Tier, Vector: rec.Vector}}, 5*time.Minute)
	if err != nil {
		fmt.Fprintln(os.Stderr, err, log)
		os.Exit(2)
	}
	r := res["r"]
	out, _ := json.MarshalIndent(r, "", " ")
	fmt.Println(string(out))
	if r.Outcome == "done" {
		fmt.Println("does not reproduce on this tree")
		os.Exit(0)
	}
	fmt.Printf("VIOLATION property=%s replay=%s\n", rec.Property, fs.Arg(0))
	os.Exit(1)
}
