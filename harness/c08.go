package influxql

import (
	"math"
	"time"
)

// C08 — durations are parsed exactly or rejected; formatting is invertible.

type c08Unit struct {
	sp   string
	mult uint64
}

var c08Units = []c08Unit{
	{"ns", 1}, {"u", 1000}, {"µ", 1000}, {"ms", 1000000}, {"s", 1000000000},
	{"m", 60 * 1000000000}, {"h", 3600 * 1000000000}, {"d", 24 * 3600 * 1000000000}, {"w", 7 * 24 * 3600 * 1000000000},
}

// c08Sum accumulates the exact total of spelled components in uint64 with an
// overflow flag (no branches on symbolic data).
type c08Sum struct {
	total uint64
	ovf   bool
}

func (s *c08Sum) add(digits []byte, mult uint64) {
	n := uint64(0)
	for i, d := range digits {
		m := n * 10
		n2 := m + uint64(d-'0')
		if i >= 19 { // only a 20th digit can overflow 64 bits (10^19 < 2^64 < 10^20)
			s.ovf = vfOr(s.ovf, n > math.MaxUint64/10)
			s.ovf = vfOr(s.ovf, n2 < m)
		}
		n = n2
	}
	s.ovf = vfOr(s.ovf, n > math.MaxUint64/mult)
	v := n * mult
	t2 := s.total + v
	s.ovf = vfOr(s.ovf, t2 < s.total)
	s.total = t2
}

// exact reports whether d is exactly the (signed) total.
func (s *c08Sum) exact(neg bool, d time.Duration) bool {
	if neg {
		return vfAnd(!s.ovf, vfAnd(s.total <= 1<<63, uint64(-int64(d)) == s.total))
	}
	return vfAnd(!s.ovf, vfAnd(s.total <= math.MaxInt64, uint64(d) == s.total))
}

// vfH_C08_parse: structured spellings [-] (digits unit)+ with every digit symbolic.
func vfH_C08_parse(tier int) {
	vfIntArith()
	maxK, maxM := 2, 19
	if tier > 0 {
		maxK, maxM = 3, 19 // (the registered thorough tier runs the quick bounds: see thoroughAtQuickBounds)
	}
	neg := vfChoice(2) == 1
	k := 1 + vfChoice(maxK)
	three := false
	if tier == 0 && vfChoice(2) == 1 {
		// quick tier: a few three-component spellings as well (five digits each, large units)
		k, three = 3, true
	}
	text := []byte{}
	if neg {
		text = append(text, '-')
	}
	var sum c08Sum
	for c := 0; c < k; c++ {
		// digit counts: quick tier uses the boundary lengths only
		var m int
		var u c08Unit
		if three {
			m = 5
			u = c08Units[[]int{6, 8}[vfChoice(2)]]
		} else if k == 1 {
			m = 1 + vfChoice(maxM+1)
			u = c08Units[vfChoice(len(c08Units))]
		} else if tier > 0 && k == 2 {
			// thorough, two components: six digit counts (short, middle, the three boundary lengths) x every unit, in both
			ms := []int{1, 2, 10, 18, 19, 20}
			m = ms[vfChoice(len(ms))]
			u = c08Units[vfChoice(len(c08Units))]
		} else if tier > 0 {
			// thorough, three components: boundary lengths x three units in each
			ms := []int{1, 19}
			m = ms[vfChoice(len(ms))]
			us := []int{0, 3, 8}
			u = c08Units[us[vfChoice(len(us))]]
		} else {
			// quick, two components: boundary lengths; all units in the first, three in the second
			ms := []int{1, 19}
			m = ms[vfChoice(len(ms))]
			if c == 0 {
				u = c08Units[vfChoice(len(c08Units))]
			} else {
				us := []int{0, 3, 8}
				u = c08Units[us[vfChoice(len(us))]]
			}
		}
		ds := make([]byte, m)
		for i := range ds {
			ds[i] = vfDigit()
		}
		text = append(text, ds...)
		text = append(text, u.sp...)
		sum.add(ds, u.mult)
	}
	s := string(text)
	d, err := ParseDuration(s)
	if err != nil {
		vfReach("C08_parse/rejected")
		return
	}
	vfNote(s)
	vfAssert(sum.exact(neg, d), "C08_parse/accepted-value-is-exact-sum")
	vfReach("C08_parse/accepted")
}

// vfH_C08_format: FormatDuration on an arbitrary int64, reference unit choice, and the round trip.
func vfH_C08_format(tier int) {
	vfIntArith()
	d := time.Duration(vfInt64())
	s := FormatDuration(d)
	vfNote(s)
	if d == 0 {
		vfAssert(s == "0s", "C08_format/zero-is-0s")
		vfReach("C08_format/zero")
		return
	}
	// split s into sign, digits, unit (unit bytes are concrete on each path)
	i := 0
	neg := false
	if s[0] == '-' {
		neg = true
		i = 1
	}
	j := len(s)
	for j > i && !isDigit(rune(s[j-1])) {
		j--
	}
	unit := s[j:]
	mult := uint64(0)
	ui := -1
	for k, u := range c08Units {
		if u.sp == unit && u.sp != "µ" {
			mult = u.mult
			ui = k
		}
	}
	vfAssert(ui >= 0, "C08_format/unit-is-one-of-the-eight")
	vfAssert(j > i, "C08_format/has-digits")
	// number printed
	n := uint64(0)
	for _, c := range []byte(s[i:j]) {
		n = n*10 + uint64(c-'0')
	}
	// magnitude of d as uint64
	mag := vfIteU64(d < 0, uint64(-int64(d)), uint64(d))
	vfAssert(neg == (d < 0), "C08_format/sign")
	vfAssert(vfAnd(mag%mult == 0, n == mag/mult), "C08_format/number-is-d-over-unit")
	// largest unit dividing d: no larger unit divides it
	for k := ui + 1; k < len(c08Units); k++ {
		if c08Units[k].mult > mult {
			vfAssert(int64(d)%int64(c08Units[k].mult) != 0, "C08_format/largest-dividing-unit")
		}
	}
	vfReach("C08_format/unit-"+unit)
	// round trip (every d except the most negative value)
	if d == math.MinInt64 {
		return
	}
	d2, err := ParseDuration(s)
	vfAssert(err == nil, "C08_format/roundtrip-accepted")
	if err == nil {
		vfAssert(d2 == d, "C08_format/roundtrip-equal")
	}
	vfReach("C08_format/roundtrip")
}

// duration literals inside statements: the lexer hands the whole spelling (all components) to
// ParseDuration, so the literal in the AST is the exact sum, wherever a duration can be written
func vfH_C08_instatement(tier int) {
	vfIntArith()
	k := 1 + vfChoice(2+tier)
	var text []byte
	var sum c08Sum
	for c := 0; c < k; c++ {
		m := 1 + vfChoice(2)
		u := c08Units[vfChoice(len(c08Units))]
		ds := make([]byte, m)
		for i := range ds {
			ds[i] = vfDigit()
		}
		text = append(text, ds...)
		text = append(text, u.sp...)
		sum.add(ds, u.mult)
	}
	dur := string(text)
	frame := vfChoice(5)
	var stmtText string
	switch frame {
	case 0:
		stmtText = "SELECT count(a) FROM m GROUP BY time(" + dur + ")"
	case 1:
		stmtText = "ALTER RETENTION POLICY p ON d SHARD DURATION " + dur
	case 2:
		stmtText = "SELECT a FROM m WHERE time > now() - " + dur
	case 3:
		stmtText = "CREATE CONTINUOUS QUERY q ON d RESAMPLE EVERY " + dur + " BEGIN SELECT count(a) INTO t FROM m GROUP BY time(1s) END"
	default:
		stmtText = "CREATE DATABASE d WITH DURATION " + dur + " NAME r"
	}
	vfNote(stmtText)
	stmt, err := ParseStatement(stmtText)
	if err != nil {
		// the only validation in these frames: RESAMPLE EVERY must be positive
		vfAssert(vfAnd(frame == 3, sum.total == 0), "C08_instatement/statement-with-a-valid-duration-literal-is-accepted")
		return
	}
	var got time.Duration
	found := false
	switch s := stmt.(type) {
	case *SelectStatement:
		if frame == 0 && len(s.Dimensions) == 1 {
			if c, ok := s.Dimensions[0].Expr.(*Call); ok && len(c.Args) == 1 {
				if l, ok := c.Args[0].(*DurationLiteral); ok {
					got, found = l.Val, true
				}
			}
		} else if b, ok := s.Condition.(*BinaryExpr); ok {
			if r, ok := b.RHS.(*BinaryExpr); ok {
				if l, ok := r.RHS.(*DurationLiteral); ok {
					got, found = l.Val, true
				}
			}
		}
	case *AlterRetentionPolicyStatement:
		if s.ShardGroupDuration != nil {
			got, found = *s.ShardGroupDuration, true
		}
	case *CreateContinuousQueryStatement:
		got, found = s.ResampleEvery, true
	case *CreateDatabaseStatement:
		if s.RetentionPolicyDuration != nil {
			got, found = *s.RetentionPolicyDuration, true
		}
	}
	vfAssert(found, "C08_instatement/one-duration-literal-where-it-was-written")
	if found {
		vfAssert(sum.exact(false, got), "C08_instatement/literal-is-the-exact-sum-of-all-components")
	}
	vfReach("C08_instatement/ok")
}
