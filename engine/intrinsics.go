package main

// Harness interface: functions named vf* in the package under test are
// intercepted here. Their Go bodies (in the overlay support file) are the
// native replay implementations.

import (
	"fmt"
	"os"
	"go/types"
	"regexp"
	"time"

	"golang.org/x/tools/go/ssa"
)

func (in *Interp) newNondet(kind string, s Sort) *Term {
	p := in.path
	if p == nil {
		panic("nondet outside a path")
	}
	name := fmt.Sprintf("v%d_%s", len(p.Nondets), kind)
	v := in.ts.Var(name, s)
	p.Nondets = append(p.Nondets, NondetRec{Kind: kind, Var: v})
	return v
}

// newAux creates an engine-internal existential variable (not part of the replay vector).
func (in *Interp) newAux(kind string, s Sort) *Term {
	p := in.path
	name := fmt.Sprintf("w%d_%s", len(p.Aux), kind)
	v := in.ts.Var(name, s)
	p.Aux = append(p.Aux, v)
	return v
}

func (in *Interp) registerIntrinsics(reg func(string, extFn)) {
	ts := in.ts
	pfx := in.mainPkg.Pkg.Path() + "."
	r := func(name string, f extFn) { reg(pfx+name, f) }

	r("vfBool", func(in *Interp, fr *frame, fn *ssa.Function, args []Value) Value {
		return in.newNondet("bool", SBool)
	})
	r("vfByte", func(in *Interp, fr *frame, fn *ssa.Function, args []Value) Value {
		return in.newNondet("u8", SBV(8))
	})
	r("vfRune", func(in *Interp, fr *frame, fn *ssa.Function, args []Value) Value {
		return in.newNondet("i32", SBV(32))
	})
	r("vfInt64", func(in *Interp, fr *frame, fn *ssa.Function, args []Value) Value {
		return in.newNondet("i64", SBV(64))
	})
	r("vfInt", func(in *Interp, fr *frame, fn *ssa.Function, args []Value) Value {
		return in.newNondet("i64", SBV(64))
	})
	r("vfUint64", func(in *Interp, fr *frame, fn *ssa.Function, args []Value) Value {
		return in.newNondet("u64", SBV(64))
	})
	r("vfFloat64", func(in *Interp, fr *frame, fn *ssa.Function, args []Value) Value {
		return in.newNondet("f64", SF64)
	})
	r("vfChoice", func(in *Interp, fr *frame, fn *ssa.Function, args []Value) Value {
		n := in.concreteInt(fr, args[0], "vfChoice")
		if n <= 1 {
			return in.mkInt(0) // the native version consumes nothing either
		}
		k := in.choice(n, "choice")
		in.path.Nondets = append(in.path.Nondets, NondetRec{Kind: "choice", Val: uint64(k)})
		return in.mkInt(int64(k))
	})
	r("vfIteByte", func(in *Interp, fr *frame, fn *ssa.Function, args []Value) Value {
		return ts.Ite(args[0].(*Term), args[1].(*Term), args[2].(*Term))
	})
	r("vfIteInt", func(in *Interp, fr *frame, fn *ssa.Function, args []Value) Value {
		return ts.Ite(args[0].(*Term), args[1].(*Term), args[2].(*Term))
	})
	r("vfAssume", func(in *Interp, fr *frame, fn *ssa.Function, args []Value) Value {
		c := args[0].(*Term)
		if c.IsConst() {
			if !c.Bool() {
				panic(pathEnd{Kind: "infeasible", Msg: "assume(false)"})
			}
			return nil
		}
		if v, ok := in.known(c); ok {
			if !v {
				panic(pathEnd{Kind: "infeasible", Msg: "assume contradicts path condition"})
			}
			return nil
		}
		if len(in.path.Trace) >= len(in.path.Forced) {
			// frontier: check satisfiability once
			r := in.feasible(c)
			if r == Unsat {
				panic(pathEnd{Kind: "infeasible", Msg: "assume unsatisfiable"})
			}
		}
		in.addPC(c)
		return nil
	})
	r("vfAssert", func(in *Interp, fr *frame, fn *ssa.Function, args []Value) Value {
		in.assert(fr, args[0].(*Term), args[1].(Str).String())
		return nil
	})
	r("vfReach", func(in *Interp, fr *frame, fn *ssa.Function, args []Value) Value {
		in.path.Labels = append(in.path.Labels, args[0].(Str).String())
		return nil
	})
	r("vfNote", func(in *Interp, fr *frame, fn *ssa.Function, args []Value) Value {
		in.path.NoteVals = append(in.path.NoteVals, args[0].(Str))
		return nil
	})
	r("vfNoteRunes", func(in *Interp, fr *frame, fn *ssa.Function, args []Value) Value {
		p := in.path
		if p.NoteInts == nil {
			p.NoteInts = map[int][]*Term{}
		}
		xs, _ := args[1].([]Value)
		ts := make([]*Term, len(xs))
		for i, x := range xs {
			ts[i] = x.(*Term)
		}
		p.NoteInts[len(p.NoteVals)] = ts
		p.NoteVals = append(p.NoteVals, args[0].(Str))
		return nil
	})
	r("vfNativeNote", func(in *Interp, fr *frame, fn *ssa.Function, args []Value) Value { return nil })
	r("vfConcretize", func(in *Interp, fr *frame, fn *ssa.Function, args []Value) Value {
		s := args[0].(Str)
		if s.B == nil {
			return s
		}
		out := make([]byte, len(s.B))
		for i, b := range s.B {
			c := in.concretize(in.ts.ZExt(b, 64), "vfConcretize")
			out[i] = byte(c.C)
		}
		return Str{S: string(out)}
	})
	r("vfRegexEquivLiterals", func(in *Interp, fr *frame, fn *ssa.Function, args []Value) Value {
		return in.regexEquivIntrinsic(fr, fn, args)
	})
	r("vfSteps", func(in *Interp, fr *frame, fn *ssa.Function, args []Value) Value {
		return in.mkInt(in.path.Steps)
	})
	r("vfIntArith", func(in *Interp, fr *frame, fn *ssa.Function, args []Value) Value {
		in.path.IntMode = true
		return nil
	})
	r("vfLooseLibraries", func(in *Interp, fr *frame, fn *ssa.Function, args []Value) Value {
		in.path.Loose = true
		return nil
	})
	r("vfSymbolic", func(in *Interp, fr *frame, fn *ssa.Function, args []Value) Value {
		return ts.True
	})
	r("vfCatch", func(in *Interp, fr *frame, fn *ssa.Function, args []Value) (res Value) {
		depth := in.depth
		defer func() {
			rec := recover()
			if rec == nil {
				return
			}
			ip, ok := rec.(*interpPanic)
			if !ok {
				panic(rec)
			}
			in.depth = depth
			res = Tuple{ts.True, Str{S: ip.Msg}}
		}()
		in.call(fr, args[0], nil, nil)
		return Tuple{ts.False, Str{}}
	})
	r("vfDeepEqual", func(in *Interp, fr *frame, fn *ssa.Function, args []Value) Value {
		a, b := args[0].(Iface), args[1].(Iface)
		de := &deepEq{in: in, fr: fr, seen: map[[2]interface{}]bool{}}
		return de.iface(a, b)
	})
	r("vfDisjoint", func(in *Interp, fr *frame, fn *ssa.Function, args []Value) Value {
		sa := map[interface{}]bool{}
		sb := map[interface{}]bool{}
		in.collectMutable(args[0], sa, map[*Value]bool{})
		in.collectMutable(args[1], sb, map[*Value]bool{})
		for k := range sa {
			if sb[k] {
				return ts.False
			}
		}
		return ts.True
	})
	r("vfFreeze", func(in *Interp, fr *frame, fn *ssa.Function, args []Value) Value {
		// freeze package globals plus everything reachable from the arguments
		in.frozenLax = true
		in.frozen = map[*Value]bool{}
		in.frozenMaps = map[*MapV]bool{}
		in.frozenHits = nil
		for p := range in.globalSlot {
			in.frozen[p] = true
		}
		for m := range in.globalMaps {
			in.frozenMaps[m] = true
		}
		roots, _ := args[0].([]Value)
		seen := map[*Value]bool{}
		for _, rt := range roots {
			in.collectSlots(rt, in.frozen, in.frozenMaps, seen)
		}
		return nil
	})
	r("vfSharedWrites", func(in *Interp, fr *frame, fn *ssa.Function, args []Value) Value {
		// run f with the package state and everything reachable from the roots frozen; count stores into them
		in.frozenLax = false
		in.frozen = map[*Value]bool{}
		in.frozenMaps = map[*MapV]bool{}
		in.frozenHits = nil
		for p := range in.globalSlot {
			in.frozen[p] = true
		}
		for m := range in.globalMaps {
			in.frozenMaps[m] = true
		}
		roots, _ := args[0].([]Value)
		seen := map[*Value]bool{}
		for _, rt := range roots {
			in.collectSlots(rt, in.frozen, in.frozenMaps, seen)
		}
		in.call(fr, args[1], nil, nil)
		n := len(in.frozenHits)
		in.frozen, in.frozenMaps, in.frozenHits = nil, nil, nil
		return in.mkInt(int64(n))
	})
	r("vfFrozenWrites", func(in *Interp, fr *frame, fn *ssa.Function, args []Value) Value {
		n := len(in.frozenHits)
		in.frozen, in.frozenMaps = nil, nil
		return in.mkInt(int64(n))
	})
}

// assert discharges one assertion with the solver.
func (in *Interp) assert(fr *frame, c *Term, msg string) {
	p := in.path
	if c.IsConst() {
		if c.Bool() {
			p.AssertsTriv++
			in.stats.AssertTrivial++
			return
		}
		switch in.check(p.PC) {
		case Sat:
			in.captureModel()
			in.endQuery()
			in.recordViolation("assert", msg, p.LastModel, fr)
			panic(pathEnd{Kind: "done", Msg: "assertion failed concretely: " + msg})
		case Unsat:
			panic(pathEnd{Kind: "infeasible", Msg: "path condition unsatisfiable (found at concrete assertion)"})
		default:
			p.Inconclusive = append(p.Inconclusive, "assertion false on a path whose feasibility is unknown: "+msg)
			panic(pathEnd{Kind: "done", Msg: "assertion failed on path of unknown feasibility: " + msg})
		}
	}
	if v, ok := in.known(c); ok && v {
		p.AssertsTriv++
		return
	}
	neg := in.ts.Not(c)
	// decide on the slice of the path condition that shares variables with the
	// assertion; only a violation needs the full condition (for a complete model)
	conj := append(in.slicePC(neg), neg)
	in.stats.AssertQ++
	res := in.check(conj)
	if res == Sat {
		in.endQuery()
		conj = append(append([]*Term{}, p.PC...), neg)
		res = in.check(conj)
	}
	switch res {
	case Unsat:
		p.AssertsOK++
		if in.cfg.CrossCheck != "" {
			in.crossCheck(conj, msg)
		}
		in.addPC(c)
	case Sat:
		in.captureModel()
		in.endQuery()
		in.recordViolation("assert", msg, p.LastModel, fr)
		// continue under the assumption that the assertion holds, if possible
		if in.feasible(c) == Unsat {
			panic(pathEnd{Kind: "done", Msg: "assertion fails on every input of this path: " + msg})
		}
		in.addPC(c)
	default:
		if m := in.probeBoundary(append(append([]*Term{}, p.PC...), neg)); m != nil {
			// the solver could not decide, but a boundary value refutes the assertion: a genuine counterexample
			in.endQuery()
			in.stats.ProbeHits++
			p.LastModel = m
			p.ModelPCLen = len(p.PC)
			in.recordViolation("assert", msg, m, fr)
			in.addPC(c)
			return
		}
		p.Inconclusive = append(p.Inconclusive, "assert unknown: "+msg)
		if d := os.Getenv("SYMGO_DUMP"); d != "" {
			in.dumpN++
			os.WriteFile(fmt.Sprintf("%s/unknown-%d-%d.smt2", d, os.Getpid(), in.dumpN), []byte(in.cur.Script(conj)), 0o644)
		}
		in.addPC(c)
	}
}

func (in *Interp) crossCheck(conj []*Term, msg string) {
	in.xcN++
	if in.cfg.CrossEvery > 1 && in.xcN%in.cfg.CrossEvery != 0 {
		return
	}
	script := in.cur.Script(conj)
	other := in.cfg.CrossCheck
	if in.cur == in.isolver {
		other = "cvc5" // INT-encoded queries are decided by z3-new, cross-checked by cvc5
	}
	r, out := OneShot(other, script, in.cfg.TimeoutMs)
	in.xcDone++
	if r == Sat {
		in.path.Inconclusive = append(in.path.Inconclusive, fmt.Sprintf("SOLVER DISAGREEMENT on %q: %s says sat: %s", msg, in.cfg.CrossCheck, firstLine(out)))
	} else if r == Unknown {
		in.xcUnknown++
	}
}

func firstLine(s string) string {
	for i := 0; i < len(s); i++ {
		if s[i] == '\n' {
			return s[:i]
		}
	}
	return s
}

func (in *Interp) recordViolation(kind, msg string, m Model, fr *frame) {
	p := in.path
	v := Violation{Kind: kind, Msg: msg, Vector: in.vectorFromModel(m)}
	for _, d := range p.Trace {
		v.Prefix = append(v.Prefix, d.Alt)
	}
	if fr != nil {
		v.Stack = in.stackString(fr)
	}
	p.Violations = append(p.Violations, v)
}

// vectorFromModel renders the nondet sequence of the current path under a model.
func (in *Interp) vectorFromModel(m Model) []VecEntry {
	var out []VecEntry
	for _, n := range in.path.Nondets {
		if n.Kind == "str" {
			out = append(out, VecEntry{Kind: "str", Val: fmt.Sprintf("%x", n.Str)})
			continue
		}
		if n.Var == nil {
			out = append(out, VecEntry{Kind: n.Kind, Val: fmt.Sprint(n.Val)})
			continue
		}
		var bits uint64
		if m != nil {
			bits = m[n.Var.ID]
		}
		out = append(out, VecEntry{Kind: n.Kind, Val: fmt.Sprint(bits)})
	}
	return out
}

// ---- structural equality of ASTs as one Bool term

type deepEq struct {
	in   *Interp
	fr   *frame
	seen map[[2]interface{}]bool
}

func (d *deepEq) iface(a, b Iface) *Term {
	ts := d.in.ts
	if a.T == nil || b.T == nil {
		return ts.Bool(a.T == nil && b.T == nil)
	}
	if !types.Identical(a.T, b.T) {
		return ts.False
	}
	return d.val(a.T, a.V, b.V)
}

func (d *deepEq) val(T types.Type, a, b Value) *Term {
	in := d.in
	ts := in.ts
	if namedIs(T, "time", "Time") {
		_, eq := in.cmpTimes(a.(TimeV), b.(TimeV))
		return eq
	}
	switch u := T.Underlying().(type) {
	case *types.Basic:
		if s, ok := a.(Str); ok {
			return in.strEq(s, b.(Str))
		}
		x, y := a.(*Term), b.(*Term)
		if x.S.K == KFP {
			// NaN equals NaN for structural purposes; otherwise bit equality
			return ts.Or(ts.Eq(x, y), ts.And(ts.FIsNaN(x), ts.FIsNaN(y)))
		}
		return ts.Eq(x, y)
	case *types.Pointer:
		na, isNa := a.(*Native)
		nb, isNb := b.(*Native)
		if isNa || isNb {
			if !isNa || !isNb {
				return ts.Bool(isNilValue(a) && isNilValue(b))
			}
			return ts.Bool(nativeEqual(na.V, nb.V))
		}
		pa, pb := a.(*Value), b.(*Value)
		if pa == nil || pb == nil {
			return ts.Bool(pa == nil && pb == nil)
		}
		if pa == pb {
			return ts.True
		}
		key := [2]interface{}{pa, pb}
		if d.seen[key] {
			return ts.True
		}
		d.seen[key] = true
		return d.val(u.Elem(), *pa, *pb)
	case *types.Struct:
		x, y := a.(Struct), b.(Struct)
		r := ts.True
		for i := range x {
			r = ts.And(r, d.val(u.Field(i).Type(), x[i], y[i]))
			if r == ts.False {
				return r
			}
		}
		return r
	case *types.Array:
		x, y := a.(Array), b.(Array)
		r := ts.True
		for i := range x {
			r = ts.And(r, d.val(u.Elem(), x[i], y[i]))
		}
		return r
	case *types.Slice:
		x, y := a.([]Value), b.([]Value)
		// nil and empty slices are treated alike (as the package's tests do via String())
		if len(x) != len(y) {
			return ts.False
		}
		r := ts.True
		for i := range x {
			r = ts.And(r, d.val(u.Elem(), x[i], y[i]))
			if r == ts.False {
				return r
			}
		}
		return r
	case *types.Map:
		x, y := a.(*MapV), b.(*MapV)
		nx, ny := 0, 0
		if x != nil {
			nx = x.N
		}
		if y != nil {
			ny = y.N
		}
		if nx != ny {
			return ts.False
		}
		if nx == 0 {
			return ts.True
		}
		if x.NSym > 0 || y.NSym > 0 {
			in.unsupported("vfDeepEqual on maps with symbolic keys")
		}
		r := ts.True
		for k, i := range x.Idx {
			j, ok := y.Idx[k]
			if !ok {
				return ts.False
			}
			r = ts.And(r, d.val(u.Elem(), x.Ents[i].V, y.Ents[j].V))
		}
		return r
	case *types.Interface:
		return d.iface(a.(Iface), b.(Iface))
	case *types.Signature:
		return ts.Bool(isNilValue(a) == isNilValue(b))
	}
	in.unsupported("vfDeepEqual on type %s", T)
	return nil
}

func nativeEqual(a, b interface{}) bool {
	switch x := a.(type) {
	case *regexp.Regexp:
		y, ok := b.(*regexp.Regexp)
		return ok && x.String() == y.String()
	case *time.Location:
		y, ok := b.(*time.Location)
		return ok && x.String() == y.String()
	}
	return a == b
}

// collectMutable gathers identities of mutable heap objects reachable from v
// (slots of allocated objects, slice backing elements, maps).
func (in *Interp) collectMutable(v Value, out map[interface{}]bool, seen map[*Value]bool) {
	switch x := v.(type) {
	case Iface:
		in.collectMutable(x.V, out, seen)
	case *Value:
		if x == nil || seen[x] {
			return
		}
		seen[x] = true
		out[x] = true
		in.collectMutable(*x, out, seen)
	case Struct:
		for i := range x {
			in.collectMutable(x[i], out, seen)
		}
	case Array:
		for i := range x {
			in.collectMutable(x[i], out, seen)
		}
	case []Value:
		full := x[:cap(x)]
		for i := range full {
			out[&full[i]] = true
		}
		for i := range x {
			in.collectMutable(x[i], out, seen)
		}
	case *MapV:
		if x == nil {
			return
		}
		if out[x] {
			return
		}
		out[x] = true
		for i := range x.Ents {
			if x.Ents[i].Live {
				in.collectMutable(x.Ents[i].K, out, seen)
				in.collectMutable(x.Ents[i].V, out, seen)
			}
		}
	case *Closure:
		if x != nil {
			for _, e := range x.Env {
				in.collectMutable(e, out, seen)
			}
		}
	}
}

// collectSlots gathers the leaf slot addresses reachable from v (for the write monitor).
func (in *Interp) collectSlots(v Value, slots map[*Value]bool, maps map[*MapV]bool, seen map[*Value]bool) {
	var leaf func(p *Value)
	leaf = func(p *Value) {
		switch x := (*p).(type) {
		case Struct:
			for i := range x {
				leaf(&x[i])
			}
		case Array:
			for i := range x {
				leaf(&x[i])
			}
		default:
			slots[p] = true
			in.collectSlots(*p, slots, maps, seen)
		}
	}
	switch x := v.(type) {
	case Iface:
		in.collectSlots(x.V, slots, maps, seen)
	case *Value:
		if x == nil || seen[x] {
			return
		}
		seen[x] = true
		leaf(x)
	case Struct:
		for i := range x {
			in.collectSlots(x[i], slots, maps, seen)
		}
	case Array:
		for i := range x {
			in.collectSlots(x[i], slots, maps, seen)
		}
	case []Value:
		full := x[:cap(x)]
		for i := range full {
			if i < len(x) {
				if !seen[&full[i]] {
					seen[&full[i]] = true
					leaf(&full[i])
				}
			} else {
				slots[&full[i]] = true // spare capacity is shared state as well
			}
		}
	case *MapV:
		if x == nil || maps[x] {
			return
		}
		maps[x] = true
		for i := range x.Ents {
			if x.Ents[i].Live {
				in.collectSlots(x.Ents[i].K, slots, maps, seen)
				in.collectSlots(x.Ents[i].V, slots, maps, seen)
			}
		}
	case *Closure:
		if x != nil {
			for _, e := range x.Env {
				in.collectSlots(e, slots, maps, seen)
			}
		}
	}
}
