#!/usr/bin/env python3
"""Regenerates /verif/MANIFEST.json from the table below (kept valid at all times)."""
import json

TRUST = ("Trusted base: the symgo interpreter (validated on every run by replaying sampled paths natively and comparing "
         "observable results), the library models listed in evidence coverage.stubs_used, z3 4.8.12 / z3-new 5.1.0 / cvc5 1.0.3. "
         "Bounded: string lengths, slice lengths and heap shapes are concrete per path and enumerated by the harness; "
         "everything inside a shape (bytes, runes, digits, integers, case bits) is a solver variable. Outside the stated bounds nothing is claimed.")

CHECKS = {
 "C04": dict(level="model_checking", technique="bounded symbolic execution of the parser entry points on windows of arbitrary characters, damaged statements and parameter maps; panic, step-bound and result-shape assertions",
   text="(a) 27 anchor contexts (statement start, after each clause keyword, after an operator, after a sign, after =~, inside call and time() parentheses, after INTO / a dot / ::, inside unterminated strings and comments) with a window of 0..2 (3) characters each of which is ANY Unicode scalar value, NUL included, through ParseQuery / ParseStatement / ParseExpr; (b) every statement family truncated, with a character deleted, or with an arbitrary character inserted / substituted at token boundaries; (c) 24 templates x every bindable parameter kind (symbolic payloads, keywords as identifiers, invalid regex / duration, nil, nested and malformed objects): no feasible panic path, every path within the instruction bound, a result or an error, and a returned result can be printed and walked.",
   note="Stack exhaustion by extreme nesting and inputs longer than the skeletons are outside the bound. Invalid UTF-8 reaches the lexer as U+FFFD, which is inside the symbolic range. In this check library calls on symbolic arguments (regexp.Compile, ParseFloat, LoadLocation) are over-approximated by 'succeeds or fails', arithmetic-heavy branches are explored on both sides, and windows that are printed afterwards contain no digits (number formatting is C08/C13). "+TRUST, ref="DESIGN.md section 4 C04"),
 "C07": dict(level="model_checking", technique="bounded symbolic execution of SetParams/BindValue/scan substitution on templates with symbolic parameter payloads vs. template AST",
   text="Nine templates (literal, regex operand, field, measurement, count, time() argument, after a sign, password, first call argument followed by a second statement) x 14 parameter kinds (string / int / float / bool / duration as string and as integer / regex / identifier / object forms / unbound / unbindable / malformed object), string payloads of 0..2 (3) arbitrary ASCII characters (quotes, semicolons, comment markers included) and 64-bit integers as solver variables: the result is an error or exactly the template's AST with the bound value at the placeholder; unbound, empty and unbindable parameters are rejected; a string parameter equals the written-out literal (own escaper).",
   note="Float and regex payloads are from lists. "+TRUST, ref="DESIGN.md section 4 C07"),
 "C11": dict(level="translation_validation", technique="SMT theory of strings/regular expressions: language equivalence of each regex with the literals the real rewrite produced, over ALL strings",
   text="~6600 programs (51 regex bodies x 20 anchor/flag frames x =~/!~ x 3 condition contexts, plus alternations of 99/100/101 literals) are parsed and rewritten by the real RewriteRegexConditions inside the interpreter; when the code rewrote the test, the regex (translated to an SMT-LIB RegLan with Go's unanchored-search semantics) is compared with the produced literal set by z3-new and cvc5: unsat = equivalent for every string, sat = a witness string that is replayed natively.",
   note="Obligations are per program; anchors in positions the translator cannot express are acceptable only when the code did not rewrite (otherwise inconclusive). programs = regex programs checked, disagreements_checked = witnesses replayed natively. "+TRUST, ref="DESIGN.md section 4 C11"),
 "C12": dict(level="model_checking", technique="bounded symbolic execution of RewriteFields under schemas with symbolic field types, every map iteration order explored, vs. an independent expansion model",
   text="14 statement shapes (*, *::field, *::tag, /regex/, mixed fields, calls with wildcard or regex arguments incl. type-filtered functions, GROUP BY tag / * / regex) over 1..2 measurements whose field presence is enumerated and whose field TYPES are solver variables (conflicts across measurements included), tags shadowing fields: the rewritten fields and dimensions equal the reference expansion (merge by documented type precedence, sorted by name then type, tags left out of calls and of grouped-by keys), for EVERY iteration order of every Go map with <= 4 entries; the receiver is not written.",
   note="Subquery sources and more than two names per measurement are outside the quick bound. "+TRUST, ref="DESIGN.md section 4 C12"),
 "C15": dict(level="model_checking", technique="bounded symbolic execution of the printers and of Sanitize (regexp leftmost-first model on the real compiled programs) on password statements with symbolic content and layout",
   text="CREATE USER / SET PASSWORD statements with symbolic password (0..2 (3) elements incl. escapes and blanks), symbolic user name, keyword case and gaps: String() does not depend on the password; Sanitize(text) keeps everything before and after the literal and replaces it by a fixed redaction; text without a password clause (all other statement families, look-alikes) is returned unchanged. Layouts outside what Sanitize's two patterns were written for carry separate labels (known findings).",
   note="The regexp engine is a model (leftmost-first backtracking over the real syntax.Prog), validated against the native matcher by the smoke self-check and by native replay of every counterexample. "+TRUST, ref="DESIGN.md section 4 C15"),
 "C16": dict(level="model_checking", technique="bounded symbolic execution: canonical vs. whitespace/comment variant of every statement skeleton, deep AST equality; separator combinations",
   text="For every statement family and every inter-token gap: the gap replaced by 1..2 arbitrary whitespace characters (SP, TAB, LF, CR as solver variables), CRLF, a line comment or a block comment with a symbolic body flanked by whitespace parses to the same AST as the canonical text; 1..3 statements joined with every combination of separators, empty statements and trailing semicolons parse to exactly those statements, a missing separator is an error.",
   note="One gap is varied at a time. "+TRUST, ref="DESIGN.md section 4 C16"),
 "C17": dict(level="other", technique="non-interference per operation by symbolic execution with a write monitor (reduction to race freedom); counterexamples confirmed with go test -race",
   text="For 17 operations (parse, print, quote, format/parse durations, sanitize, and on a shared AST: clone, walk, evaluate, reduce, RewriteFields, names, privileges, ConditionExpr, CloneExpr, keyword lookup) over statement skeletons with symbolic content: no path performs a store into package state or into any object reachable from the shared AST. Operations that only read shared memory cannot race under any schedule and their results are functions of their arguments; that step is the Go memory model, not an execution of schedules.",
   note="No interleaving is executed by the engine. A reported store is replayed natively by running the operation twice concurrently under the race detector. regexp.Regexp, strings.Replacer and time.Location are trusted to be safe for concurrent use. "+TRUST, ref="DESIGN.md section 4 C17"),
 "C18": dict(level="model_checking", technique="induction over the call history: base and step obligations discharged by bounded symbolic execution of SetTimeRange + ConditionExpr + evaluation at a symbolic point",
   text="Base: from an initial condition (0..2 earlier time bounds with symbolic operators, integer or now()-relative bounds, time on the left / on the right / spelled TIME, joined with a non-time part P by AND and parentheses, OR inside P) one SetTimeRange(A,B) yields a condition whose time range is exactly [A, B-1ns] and whose residual evaluates like P at a symbolic point. Step: a second call (C,D) yields exactly [C, D-1ns], the same P, and a condition of the same size. Base + step cover call sequences of every length.",
   note="Windows are concrete (5 pairs incl. 1 ns wide and empty) because they pass through time formatting. "+TRUST, ref="DESIGN.md section 4 C18"),
 "C01": dict(level="model_checking", technique="bounded symbolic execution of lexer+parser on statement skeletons with symbolic holes vs. generator-built AST (one deep-equality term per path)",
   text="27 statement families (every handler of the parser's Language tree; a coverage harness fails if a handler has no generator) are rendered from grammar skeletons whose keyword letter case, whitespace gaps, identifier characters, string characters, integer digits and duration digits are solver variables; the AST returned by the real ParseQuery must be deeply equal (every field, set or not) to the AST the generator built from the same choices. Shapes (option subsets, expression forms, quoting forms, digit counts) are enumerated one-variant-at-a-time (pairwise in thorough).",
   note="Shape coverage is one-at-a-time around a default skeleton (quick) / pairwise (thorough), not the full product; names <= 2 (3) characters; float spellings, regex bodies and time-zone names are from lists. "+TRUST, ref="DESIGN.md section 4 C01"),
 "C02": dict(level="model_checking", technique="bounded symbolic execution: parse -> String() -> parse on the C01 skeletons, deep AST equality",
   text="For every C01 skeleton the parsed statement is printed by the real String() methods on symbolic content (quoting decisions, escapes, decimal rendering are executed symbolically) and parsed again; the two ASTs must be deeply equal. Password statements are excluded (redacted on purpose).",
   note="Same shape bounds as C01. One genuine printer defect (empty quoted measurement name) is a known finding; four others were repaired in /repo. "+TRUST, ref="DESIGN.md section 4 C02"),
 "C03": dict(level="model_checking", technique="symbolic operator tokens injected through bound parameters; real ParseExpr vs. reference precedence climber",
   text="Chains of 2..4 (5) operands whose operators are solver variables over all 18 operator tokens (injected as symbolic Token values through the parser's parameter substitution), with negated operands, parenthesised sub-chains and regex operators: the tree built by the real ParseExpr equals the reference grouping by the five levels of the property statement, left-associative; printing and re-parsing keeps the grouping (18^(k-1) spellings for k <= 3 (4)).",
   note="Operands are plain names; the operator injection uses the parser's own params map (in-package harness). "+TRUST, ref="DESIGN.md section 4 C03"),
 "C09": dict(level="model_checking", technique="bounded symbolic execution of Reduce and ValuerEval on trees with symbolic operators and symbolic 64-bit / float64 leaves",
   text="Every well-typed tree with one binary node (all operators x all operand kind pairs x all 9 splits of the bindings between Reduce and the evaluator) and with two binary nodes (pairwise-covering kind and binding assignments) over symbolic int64, uint64, float64 and bool leaves: Eval(Reduce(e, part), rest) equals Eval(e, all) (dynamic type and value, NaN = NaN), and Reduce is idempotent.",
   note="String operands and the time-arithmetic clause are not covered yet; math.Mod is an uninterpreted function. "+TRUST, ref="DESIGN.md section 4 C09"),
 "C10": dict(level="model_checking", technique="bounded symbolic execution of ConditionExpr with symbolic operators, bounds, clock and point vs. reference truth",
   text="Ten condition shapes (1..3 time bounds on either side, AND nesting with parentheses, OR among non-time predicates, boolean literals) with symbolic comparison operators, symbolic int64 / duration / now()+-d bounds, symbolic clock and a symbolic point (timestamp, tag value, field value): the original condition holds at the point iff the timestamp is inside [MinTimeNano, MaxTimeNano] and the residual evaluates to true; errors only for bounds outside the representable timestamps.",
   note="Date/time string bounds are concrete samples; symbolic instants are exact 72-bit integers in the engine's time model. "+TRUST, ref="DESIGN.md section 4 C10"),
 "C13": dict(level="model_checking", technique="bounded symbolic execution: every public operation on parsed statements, panic paths decided by the solver",
   text="SELECT statements built to pass the parser but not a validator (special-cased function names with 0..3 arguments of every kind, GROUP BY time() with 0..3 arguments, zero/negative intervals with symbolic digits, fractional divisors, wildcards and regexes in odd places) x 24 operations (print, clone, walk, the rewrites, RewriteFields under a schema, Reduce, evaluation, EvalType, ConditionExpr, GROUP BY interval/offset/Normalize, column and field names, privileges, SetTimeRange): no feasible panic path; plus print/walk/privileges/default database on every other statement family.",
   note="Division by a symbolic value, slice bounds and type assertions are panic paths decided per path; seven panics found this way were repaired in /repo. "+TRUST, ref="DESIGN.md section 4 C13"),
 "C14": dict(level="model_checking", technique="bounded symbolic execution + heap monitors: deep equality, reachable-object disjointness, write-set monitor",
   text="For parsed SELECT skeletons (with the parser-unset flags set to symbolic values): Clone / CloneExpr results are deeply equal to the original over all fields and share no mutable heap object with it (which, with rewrites that only store below their receiver, makes every later mutation invisible to the other side); Reduce, RewriteFields, evaluation, String, ColumnNames, RequiredPrivileges and Clone perform no store into any object reachable from their receiver or from package state.",
   note="Disjointness and the write monitor are exact on the interpreter's concrete heap; regexps and time locations are immutable handles. "+TRUST, ref="DESIGN.md section 4 C14"),
 "C19": dict(level="model_checking", technique="bounded symbolic execution of RequiredPrivileges on all statement skeletons; parse-tree coverage harness",
   text="Every statement family of the parse tree (walked at run time; a missing generator fails the check): privileges are returned without error and are non-empty, administrative kinds (list transcribed from the property) require admin; for SELECT / EXPLAIN with 1..3 levels of subqueries and sources in symbolic databases every database read gets a read privilege and the INTO target's database a write privilege.",
   note=TRUST, ref="DESIGN.md section 4 C19"),
 "C20": dict(level="model_checking", technique="bounded symbolic execution of ColumnNames with symbolic names (map with symbolic keys)",
   text="Field lists of 1..3 (4) fields (references, calls, binary expressions, parenthesised fields, top()/bottom() with tag arguments, aliases; with/without INTO, OmitTime, time alias) whose names have a symbolic first character and a suffix from {'', _1, _2, _1_1}: one name per column, time column first, aliases verbatim, and whenever the aliases are pairwise distinct all field columns are pairwise distinct; second call equal, statement unchanged.",
   note="Names are over a small alphabet chosen so that generated names, aliases and suffix forms can collide. "+TRUST, ref="DESIGN.md section 4 C20"),
 "C05": dict(level="model_checking", technique="bounded symbolic execution of the real scanner (go/ssa interpreter + SMT path feasibility), measured token extents vs. reference line/column model",
   text="Every text of up to 3 (quick) / 4 (thorough) characters, each character ANY Unicode scalar value except NUL (solver variable), is scanned by the real Scanner over a counting rune source; on every feasible path the assertions (termination with sticky EOF, progress, push-back within the ring, position == reference line/column with CRLF / lone CR folded, literal == extent for WS/INTEGER/DURATIONVAL/bare IDENT) are decided by the path condition. Exhaustive over path classes within the bound.",
   note="NUL is excluded (it is the scanner's in-band EOF marker). Two genuine position defects are pinned by existing tests and listed in known_findings.json. "+TRUST, ref="DESIGN.md section 4 C05"),
 "C06": dict(level="model_checking", technique="bounded symbolic execution: QuoteString/QuoteIdent/IdentNeedsQuotes composed with the real scanner/parser over symbolic strings",
   text="For every string of up to 3 (quick) / 4 (thorough) characters, each a symbolic ASCII byte (any value but NUL and CR) or one of the sample multi-byte characters: QuoteString(s) and QuoteIdent(s) scan as exactly one STRING / IDENT with value s followed by EOF; IdentNeedsQuotes(s) is false iff s scans bare as that identifier; two- and three-part names (empty middle part included) parse back to the same Measurement.",
   note="Non-ASCII characters come from a sample list (2-, 3-, 4-byte and the two runes with ASCII lower-case forms), not from the solver. Invalid UTF-8 and the in-statement embedding clause are not covered yet. "+TRUST, ref="DESIGN.md section 4 C06"),
 "C08": dict(level="model_checking", technique="bounded symbolic execution with integer (mod 2^64) SMT encoding; skolemised decimal rendering; exact-sum oracle",
   text="ParseDuration on every spelling [-](digits unit)+ with 1..2 components (3 thorough), every digit a solver variable (1..20 digits, i.e. every 64-bit magnitude and beyond) and every unit: accepted => value equals the exact sum computed with overflow flags. FormatDuration on an arbitrary int64: sign, unit is the largest dividing one, number is d/unit, and ParseDuration(FormatDuration(d)) == d for all d != MinInt64 (19 digit-count classes x 8 units x sign, each decided for all values).",
   note="Value-unbounded within the shape bounds. Multiply/divide by the unit constants is decided in the INT encoding (mathematical integers with explicit mod 2^64) by z3-new with cvc5 fallback and cvc5 cross-check. Arbitrary malformed strings and duration literals inside statements are not covered yet. "+TRUST, ref="DESIGN.md section 4 C08"),
}

NA_REASON = "check not built yet (engine under construction; see DESIGN.md section 4)"

def main():
    ids=[json.loads(l)['id'] for l in open('/verif/properties.jsonl')]
    checks=[]
    for pid in ids:
        c=CHECKS.get(pid)
        if not c: continue
        checks.append({
            "property_id": pid,
            "quick_cmd": f"/verif/check {pid} quick",
            "thorough_cmd": f"/verif/check {pid} thorough",
            "evidence_file": f"/verif/evidence/{pid}.json",
            "replay_cmd_template": "/verif/bin/symgo replay {path}",
            "engine": "symgo",
            "level_claimed": {"category": c["level"], "text": c["text"], "design_ref": c["ref"]},
            "level_note": c["note"],
            "technique": c["technique"],
        })
    m={"version":1,
       "setup_cmd":"make -C /verif setup",
       "hooks":{"guard":"verif","enable":"checks load /repo with build tag verif and inject /verif/harness/*.go into package influxql through a go/packages overlay (zz_verif_*.go); nothing is written to /repo and no hook commit exists",
                "baseline_off_cmd":"cd /repo && go test -vet=off -count=1 ./...","source_commits":[],"add_only":True},
       "engines":[{"name":"symgo","path":"/verif/engine","serves_properties":[c["property_id"] for c in checks],
                   "kind_free_text":"symbolic interpreter for go/ssa written for this task (terms, path exploration by re-execution, library models) + SMT back ends (z3, z3-new, cvc5; BV and INT encodings) + native counterexample replay via go test -overlay"}],
       "checks":checks,
       "not_applicable":[{"property_id":i,"reason":NA.get(i,NA_REASON)} for i in ids if i not in CHECKS],
       "notes":"Every check regenerates its encoding from /repo's current working tree (go/packages + go/ssa on each run). Exit 0 = held on everything explored; exit 1 + VIOLATION line = counterexample reproduced natively; exit 2 = inconclusive (unsupported construct, solver unknown, budget) or engine/native mismatch, never reported as a pass."}
    json.dump(m,open('/verif/MANIFEST.json','w'),indent=1)

NA = {}
if __name__=="__main__":
    main()
