package main

import (
	"encoding/json"
	"flag"
	"fmt"
	"go/types"
	"os"
	"path/filepath"
	"sort"
	"strings"
	"sync"
	"time"

	"golang.org/x/tools/go/packages"
	"golang.org/x/tools/go/ssa"
	"golang.org/x/tools/go/ssa/ssautil"
)

type Loaded struct {
	prog    *ssa.Program
	mainPkg *ssa.Package
	overlay map[string][]byte
}

func loadRepo(repo string, harnessDir string, tags string) (*Loaded, error) {
	overlay := map[string][]byte{}
	if harnessDir != "" {
		files, _ := filepath.Glob(filepath.Join(harnessDir, "*.go"))
		for _, f := range files {
			b, err := os.ReadFile(f)
			if err != nil {
				return nil, err
			}
			base := filepath.Base(f)
			if strings.HasSuffix(base, "_test.go") {
				continue // test driver is only for native replay
			}
			overlay[filepath.Join(repo, "zz_verif_"+base)] = b
		}
	}
	cfg := &packages.Config{
		Mode:       packages.LoadAllSyntax,
		Dir:        repo,
		Overlay:    overlay,
		BuildFlags: []string{"-tags=" + tags},
		Env:        append(os.Environ(), "GOFLAGS=-mod=mod", "GOPROXY=off", "GOSUMDB=off", "GOTOOLCHAIN=local"),
	}
	pkgs, err := packages.Load(cfg, ".")
	if err != nil {
		return nil, err
	}
	if packages.PrintErrors(pkgs) > 0 {
		return nil, fmt.Errorf("package load errors")
	}
	prog, spkgs := ssautil.AllPackages(pkgs, ssa.InstantiateGenerics)
	prog.Build()
	return &Loaded{prog: prog, mainPkg: spkgs[0], overlay: overlay}, nil
}

func NewInterp(ld *Loaded, cfg *RunConfig) (*Interp, error) {
	in := &Interp{
		prog: ld.prog, mainPkg: ld.mainPkg, ts: NewTermStore(), cfg: cfg,
		globals: map[*ssa.Global]*Value{}, initDone: map[*ssa.Package]bool{}, initFailed: map[*ssa.Package]string{},
		constCache: map[*ssa.Const]Value{}, fnsSeen: map[*ssa.Function]bool{}, stubsUsed: map[string]int{},
		digitProv: map[uint32]*digitsProv{}, locs: map[*time.Location]*Native{}, fixedZones: map[string]*Native{}, pureCache: map[*ssa.Function]int{},
		globalMaps: map[*MapV]bool{}, qcache: map[string]Result{}, reProgs: map[string]*reProg{},
	}
	for i := 0; i < 256; i++ {
		in.byteTab[i] = in.ts.BV(8, uint64(i))
	}
	var err error
	in.solver, err = NewSolver(cfg.Solver, in.ts, cfg.TimeoutMs)
	if err != nil {
		return nil, err
	}
	in.registerExt()
	if err := in.initMain(); err != nil {
		return nil, err
	}
	return in, nil
}

func (in *Interp) initMain() (err error) {
	defer func() {
		if r := recover(); r != nil {
			switch e := r.(type) {
			case pathEnd:
				err = fmt.Errorf("init: %s: %s", e.Kind, e.Msg)
			case *interpPanic:
				err = fmt.Errorf("init panic: %s (%s)", e.Msg, e.Stack)
			default:
				panic(r)
			}
		}
	}()
	// (re)initialise the package under test only: library packages keep the state
	// their own initialisers built (their initDone flag stays set)
	for g := range in.globals {
		if g.Pkg == in.mainPkg {
			delete(in.globals, g)
		}
	}
	in.runInit(in.mainPkg)
	// collect global slots for the dirty/frozen monitors
	in.globalSlot = nil
	slots := map[*Value]bool{}
	maps := map[*MapV]bool{}
	seen := map[*Value]bool{}
	for _, m := range in.mainPkg.Members {
		if g, ok := m.(*ssa.Global); ok {
			if strings.HasPrefix(g.Name(), "init$") {
				continue
			}
			p := in.globalAddr(g)
			in.collectSlots(p, slots, maps, seen)
		}
	}
	in.globalSlot = slots
	in.globalMaps = maps
	in.globalsDirty = false
	return nil
}

func (in *Interp) runInit(pkg *ssa.Package) {
	in.initDone[pkg] = true
	// allocate all globals of the package first
	for _, m := range pkg.Members {
		if g, ok := m.(*ssa.Global); ok {
			if _, have := in.globals[g]; !have {
				if p, ok := in.timeGlobal(g); ok {
					in.globals[g] = p
					continue
				}
				p := new(Value)
				*p = in.zero(g.Type().(*types.Pointer).Elem())
				in.globals[g] = p
			}
		}
	}
	initFn := pkg.Func("init")
	if initFn == nil {
		return
	}
	in.explicitInit = pkg
	savedPath := in.path
	in.path = nil
	defer func() { in.path = savedPath }()
	in.callFunction(nil, initFn, nil, nil)
}

// ensureInit runs the initializer of a library package on first use.
func (in *Interp) ensureInit(pkg *ssa.Package) {
	if pkg == nil || in.initDone[pkg] {
		return
	}
	if msg, bad := in.initFailed[pkg]; bad {
		in.unsupported("package %s could not be initialised: %s", pkg.Pkg.Path(), msg)
	}
	switch pkg.Pkg.Path() {
	case "time", "fmt", "os", "reflect", "sync", "runtime", "syscall", "regexp", "regexp/syntax", "unicode", "errors", "internal/reflectlite", "internal/abi", "unsafe", "sync/atomic", "encoding/json":
		// modelled packages: globals get zero values / handles, init is not interpreted
		in.initDone[pkg] = true
		for _, m := range pkg.Members {
			if g, ok := m.(*ssa.Global); ok {
				if p, ok := in.timeGlobal(g); ok {
					in.globals[g] = p
				}
			}
		}
		return
	}
	func() {
		defer func() {
			if r := recover(); r != nil {
				if e, ok := r.(pathEnd); ok && e.Kind == "unsupported" {
					in.initFailed[pkg] = e.Msg
					return
				}
				panic(r)
			}
		}()
		saved := in.explicitInit
		in.runInit(pkg)
		in.explicitInit = saved
	}()
	if msg, bad := in.initFailed[pkg]; bad {
		in.unsupported("package %s could not be initialised: %s", pkg.Pkg.Path(), msg)
	}
}

// ---- work distribution

type WorkItem struct {
	Harness string
	Forced  []int
}

type PathReport struct {
	Harness      string      `json:"harness"`
	Prefix       []int       `json:"prefix"`
	Outcome      string      `json:"outcome"`
	Msg          string      `json:"msg,omitempty"`
	Stack        string      `json:"stack,omitempty"`
	Labels       []string    `json:"labels,omitempty"`
	Violations   []Violation `json:"violations,omitempty"`
	Inconclusive []string    `json:"inconclusive,omitempty"`
	Notes        []string    `json:"notes,omitempty"`
	AssertsOK    int         `json:"asserts_ok"`
	AssertsTriv  int         `json:"asserts_trivial"`
	Steps        int64       `json:"steps"`
	NNondet      int         `json:"n_nondet"`
	NSymNondet   int         `json:"n_sym_nondet"`
	PCLen        int         `json:"pc_len"`
	Vector       []VecEntry  `json:"vector,omitempty"` // one model of the path (sample)
}

type RunSummary struct {
	Harnesses    []string            `json:"harnesses"`
	Paths        int                 `json:"paths"`
	Outcomes     map[string]int      `json:"outcomes"`
	Labels       map[string]int      `json:"labels"`
	AssertsOK    int                 `json:"asserts_discharged"`
	AssertsTriv  int                 `json:"asserts_trivial"`
	BranchQ      int                 `json:"branch_queries"`
	AssertQ      int                 `json:"assert_queries"`
	Sat          int                 `json:"sat"`
	Unsat        int                 `json:"unsat"`
	Unknown      int                 `json:"unknown"`
	SolverS      float64             `json:"solver_s"`
	Instrs       int64               `json:"instructions"`
	Summaries    int                 `json:"pure_summaries"`
	FactHits     int                 `json:"fact_hits"`
	ModelHits    int                 `json:"model_hits"`
	IntQ         int                 `json:"int_encoded_queries"`
	CacheHits    int                 `json:"query_cache_hits"`
	RegexQ       int                 `json:"regex_language_queries"`
	CrossChecked int                 `json:"cross_checked"`
	CrossUnknown int                 `json:"cross_unknown"`
	Functions    []string            `json:"functions_encoded"`
	Stubs        map[string]int      `json:"stubs_used"`
	SolverErrors []string            `json:"solver_errors,omitempty"`
	Violations   []PathReport        `json:"violations,omitempty"`
	Problems     []PathReport        `json:"problems,omitempty"` // unsupported / steplimit / inconclusive
	Samples      []PathReport        `json:"samples,omitempty"`
	DistinctSym  int                 `json:"paths_with_symbolic_assert"`
	WallS        float64             `json:"wall_s"`
	MaxSteps     int64               `json:"max_steps_seen"`
	Truncated    bool                `json:"truncated"`
	AllPrefixes  []string            `json:"all_prefixes,omitempty"`
}

func runHarnesses(ld *Loaded, cfg *RunConfig, harnesses []string, workers int, maxPaths int, deadline time.Time) (*RunSummary, error) {
	sum := &RunSummary{Harnesses: harnesses, Outcomes: map[string]int{}, Labels: map[string]int{}, Stubs: map[string]int{}}
	start := time.Now()
	var mu sync.Mutex
	cond := sync.NewCond(&mu)
	var queue []WorkItem
	for _, h := range harnesses {
		queue = append(queue, WorkItem{Harness: h, Forced: cfg.ForcedStart})
	}
	active := 0
	violSeen := map[string]int{}
	fnSet := map[string]bool{}
	var firstErr error
	stop := false

	var wg sync.WaitGroup
	for w := 0; w < workers; w++ {
		wg.Add(1)
		go func(wid int) {
			defer wg.Done()
			c := *cfg
			in, err := NewInterp(ld, &c)
			if err != nil {
				mu.Lock()
				if firstErr == nil {
					firstErr = err
				}
				stop = true
				cond.Broadcast()
				mu.Unlock()
				return
			}
			defer func() { in.solver.Close(); in.isolver.Close() }()
			for {
				mu.Lock()
				for len(queue) == 0 && active > 0 && !stop {
					cond.Wait()
				}
				if stop || (len(queue) == 0 && active == 0) {
					cond.Broadcast()
					mu.Unlock()
					break
				}
				// LIFO gives depth-first behaviour and small queues
				item := queue[len(queue)-1]
				queue = queue[:len(queue)-1]
				active++
				mu.Unlock()

				fn := ld.mainPkg.Func(item.Harness)
				var rep PathReport
				var sibs [][]int
				if fn == nil {
					rep = PathReport{Harness: item.Harness, Outcome: "unsupported", Msg: "harness function not found"}
				} else {
					if in.globalsDirty {
						if err := in.initMain(); err != nil {
							rep = PathReport{Harness: item.Harness, Outcome: "unsupported", Msg: err.Error()}
						}
					}
					var args []Value
					for i := 0; i < fn.Signature.Params().Len(); i++ {
						v := 0
						if i < len(cfg.Args) {
							v = cfg.Args[i]
						}
						args = append(args, in.mkInt(int64(v)))
					}
					if os.Getenv("SYMGO_FRESH") == "qcache" {
						in.qcache = map[string]Result{}
					}
					if os.Getenv("SYMGO_FRESH") == "solver" {
						in.solver.Close()
						in.solver, _ = NewSolver(cfg.Solver, in.ts, cfg.TimeoutMs)
						in.isolver.Close()
						in.isolver = nil
					}
					res := in.RunPath(fn, args, item.Forced)
					sibs = res.Siblings
					st := res.State
					rep = PathReport{Harness: item.Harness, Outcome: res.Outcome, Msg: res.Msg, Stack: res.Stack,
						Labels: st.Labels, Violations: st.Violations, Inconclusive: st.Inconclusive, Notes: st.Notes,
						AssertsOK: st.AssertsOK, AssertsTriv: st.AssertsTriv, Steps: st.Steps, NNondet: len(st.Nondets), PCLen: len(st.PC)}
					for _, d := range st.Trace {
						rep.Prefix = append(rep.Prefix, d.Alt)
					}
					for _, n := range st.Nondets {
						if n.Var != nil {
							rep.NSymNondet++
						}
					}
					if res.Outcome == "panic" || res.Outcome == "steplimit" {
						// obtain a model of the path condition for replay
						in.path = st
						r := in.check(st.PC)
						var m Model
						if r == Sat {
							in.captureModel()
							in.endQuery()
							m = st.LastModel
						}
						v := Violation{Kind: res.Outcome, Msg: res.Msg, Vector: in.vectorFromModel(m), Prefix: rep.Prefix, Stack: res.Stack}
						if r == Unknown {
							rep.Inconclusive = append(rep.Inconclusive, "path condition of panic path unknown")
						}
						rep.Violations = append(rep.Violations, v)
					}
					// notes: concrete ones verbatim; symbolic ones under a full model of the path
					symNotes := false
					for _, nv := range st.NoteVals {
						if nv.B != nil {
							symNotes = true
						}
					}
					var fm Model
					if res.Outcome == "done" && in.sampled < cfg.SampleModels && len(st.Violations) == 0 {
						in.path = st
						if len(st.PC) == 0 {
							fm = Model{}
						} else if r := in.check(st.PC); r == Sat {
							in.captureModel()
							in.endQuery()
							fm = st.LastModel
						}
						if fm != nil {
							in.sampled++
							rep.Vector = in.vectorFromModel(fm)
							if rep.Vector == nil {
								rep.Vector = []VecEntry{}
							}
						}
					}
					for ni, nv := range st.NoteVals {
						if ints, ok := st.NoteInts[ni]; ok {
							txt := "note: " + nv.String() + " ["
							memo := map[uint32]*Term{}
							for k, t := range ints {
								if k > 0 {
									txt += " "
								}
								if t.IsConst() {
									txt += fmt.Sprint(t.Int())
								} else if fm != nil {
									txt += fmt.Sprint(in.ts.Eval(t, fm, memo).Int())
								} else {
									txt += "?"
								}
							}
							rep.Notes = append(rep.Notes, txt+"]")
							continue
						}
						if nv.Opq {
							rep.Notes = append(rep.Notes, "note: <opaque>")
						} else if nv.B == nil {
							rep.Notes = append(rep.Notes, "note: "+nv.S)
						} else if fm != nil {
							memo := map[uint32]*Term{}
							buf := make([]byte, len(nv.B))
							for i, b := range nv.B {
								buf[i] = byte(in.ts.Eval(b, fm, memo).C)
							}
							rep.Notes = append(rep.Notes, "note: "+string(buf))
						} else {
							rep.Notes = append(rep.Notes, "note: "+nv.String())
						}
					}
					_ = symNotes
					in.path = nil
				}

				mu.Lock()
				active--
				for _, s := range sibs {
					queue = append(queue, WorkItem{Harness: item.Harness, Forced: s})
				}
				sum.Paths++
				if cfg.Verbose {
					sum.AllPrefixes = append(sum.AllPrefixes, rep.Outcome+":"+prefixKey(rep.Prefix))
				}
				sum.Outcomes[rep.Outcome]++
				for _, l := range rep.Labels {
					sum.Labels[l]++
				}
				sum.AssertsOK += rep.AssertsOK
				sum.AssertsTriv += rep.AssertsTriv
				if rep.NSymNondet > 0 && rep.PCLen > 0 && rep.Outcome == "done" {
					sum.DistinctSym++
				}
				if rep.Steps > sum.MaxSteps {
					sum.MaxSteps = rep.Steps
				}
				if len(rep.Violations) > 0 {
					// keep up to three path reports per distinct (harness, kind, message)
					keep := false
					for _, v := range rep.Violations {
						k := rep.Harness + "|" + v.Kind + "|" + v.Msg
						if violSeen[k] < 3 {
							violSeen[k]++
							keep = true
						}
					}
					if keep {
						sum.Violations = append(sum.Violations, rep)
					}
				}
				if rep.Outcome == "unsupported" || len(rep.Inconclusive) > 0 {
					if len(sum.Problems) < 50 {
						sum.Problems = append(sum.Problems, rep)
					} else {
						sum.Truncated = true
					}
				}
				if rep.Vector != nil && len(sum.Samples) < 64 {
					sum.Samples = append(sum.Samples, rep)
				}
				if maxPaths > 0 && sum.Paths >= maxPaths {
					stop = true
					sum.Truncated = true
				}
				if !deadline.IsZero() && time.Now().After(deadline) {
					stop = true
					sum.Truncated = true
				}
				cond.Broadcast()
				mu.Unlock()
				if cfg.Verbose {
					fmt.Fprintf(os.Stderr, "[w%d] %s %v -> %s %s (ok=%d triv=%d viol=%d)\n", wid, item.Harness, rep.Prefix, rep.Outcome, rep.Msg, rep.AssertsOK, rep.AssertsTriv, len(rep.Violations))
				}
			}
			// fold worker stats
			mu.Lock()
			sum.BranchQ += in.stats.BranchQ
			sum.AssertQ += in.stats.AssertQ
			for _, sv := range []*Solver{in.solver, in.isolver} {
				if sv == nil {
					continue
				}
				sum.Sat += sv.NSat
				sum.Unsat += sv.NUnsat
				sum.Unknown += sv.NUnknown
				sum.SolverS += sv.Time.Seconds()
				if len(sv.Errors) > 0 && len(sum.SolverErrors) < 20 {
					sum.SolverErrors = append(sum.SolverErrors, sv.Errors...)
				}
			}
			sum.IntQ += in.stats.IntQ
			sum.CacheHits += in.stats.CacheHits
			sum.RegexQ += in.stats.RegexQ
			sum.Instrs += in.stats.Instrs
			sum.Summaries += in.stats.Summaries
			sum.FactHits += in.stats.FactHits
			sum.ModelHits += in.stats.ModelHits
			sum.CrossChecked += in.xcDone
			sum.CrossUnknown += in.xcUnknown
			for f := range in.fnsSeen {
				fnSet[f.String()] = true
			}
			for k, v := range in.stubsUsed {
				sum.Stubs[k] += v
			}
			mu.Unlock()
		}(w)
	}
	wg.Wait()
	if firstErr != nil {
		return nil, firstErr
	}
	for f := range fnSet {
		sum.Functions = append(sum.Functions, f)
	}
	sort.Strings(sum.Functions)
	sum.WallS = time.Since(start).Seconds()
	return sum, nil
}

func main() {
	if len(os.Args) < 2 {
		fmt.Fprintln(os.Stderr, "usage: symgo run|check ...")
		os.Exit(2)
	}
	switch os.Args[1] {
	case "run":
		cmdRun(os.Args[2:])
	case "check":
		cmdCheck(os.Args[2:])
	case "selfcheck":
		cmdSelfcheck(os.Args[2:])
	case "replay":
		cmdReplay(os.Args[2:])
	default:
		fmt.Fprintln(os.Stderr, "unknown command")
		os.Exit(2)
	}
}

func cmdRun(argv []string) {
	fs := flag.NewFlagSet("run", flag.ExitOnError)
	repo := fs.String("repo", "/repo", "repository")
	hdir := fs.String("harness", "/verif/harness", "harness directory")
	names := fs.String("h", "", "comma-separated harness functions")
	workers := fs.Int("workers", 16, "workers")
	maxSteps := fs.Int64("maxsteps", 5_000_000, "instruction bound per path")
	tmo := fs.Int("timeout", 10000, "solver timeout ms")
	solver := fs.String("solver", "z3", "solver")
	verbose := fs.Bool("v", false, "verbose")
	maxPaths := fs.Int("maxpaths", 0, "stop after n paths")
	tier := fs.Int("tier", 0, "tier argument passed to harness")
	nosum := fs.Bool("nosummaries", false, "disable pure-function summaries")
	maporders := fs.Bool("maporders", false, "explore map iteration orders")
	out := fs.String("out", "", "write JSON summary")
	forced := fs.String("forced", "", "comma-separated decision prefix: run exactly that path")
	fs.Parse(argv)
	ld, err := loadRepo(*repo, *hdir, "verif")
	if err != nil {
		fmt.Fprintln(os.Stderr, "load:", err)
		os.Exit(2)
	}
	cfg := &RunConfig{MaxSteps: *maxSteps, Summaries: !*nosum, TimeoutMs: *tmo, Solver: *solver, Verbose: *verbose, Args: []int{*tier}, MapOrders: *maporders}
	if *forced != "" {
		for _, x := range strings.Split(*forced, ",") {
			var v int
			fmt.Sscan(x, &v)
			cfg.ForcedStart = append(cfg.ForcedStart, v)
		}
		*maxPaths = 1
		*workers = 1
	}
	sum, err := runHarnesses(ld, cfg, strings.Split(*names, ","), *workers, *maxPaths, time.Time{})
	if err != nil {
		fmt.Fprintln(os.Stderr, "run:", err)
		os.Exit(2)
	}
	b, _ := json.MarshalIndent(sum, "", " ")
	if *out != "" {
		os.WriteFile(*out, b, 0o644)
	} else {
		sum2 := *sum
		sum2.Functions = nil
		b, _ = json.MarshalIndent(sum2, "", " ")
		fmt.Println(string(b))
	}
}
