export GOFLAGS=-mod=mod
export GOPROXY=off
export GOSUMDB=off
export GOTOOLCHAIN=local

# setup: build the engine from /verif/engine (x/tools v0.29.0 from the module cache) and run the
# engine self-check: the concrete interpreter and the regexp models against the natively compiled package.
setup: bin/symgo selfcheck

bin/symgo: $(wildcard engine/*.go) engine/go.mod
	mkdir -p bin .work
	cd engine && go build -o ../bin/symgo .

selfcheck: bin/symgo
	./bin/symgo check -noevidence smoke quick

.PHONY: setup selfcheck
