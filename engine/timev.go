package main

// time.Time model. A value is either a concrete native time.Time, or a
// symbolic instant "Sym nanoseconds since the Unix epoch" (64-bit term).
// Arithmetic on symbolic instants that could leave the int64 nanosecond range
// ends the path as unsupported (harnesses bound their clocks accordingly).

import (
	"go/types"
	"math"
	"time"

	"golang.org/x/tools/go/ssa"
)

type TimeV struct {
	T   time.Time
	Sym *Term
	Set bool
}

func (in *Interp) timeNative(t TimeV, what string) time.Time {
	if t.Sym != nil {
		if t.Sym.IsConst() {
			return time.Unix(0, t.Sym.Int())
		}
		in.unsupported("symbolic time passed to %s", what)
	}
	return t.T
}

// nsTerm returns the instant as int64 nanoseconds if representable.
func (in *Interp) timeNs(t TimeV) (*Term, bool) {
	if t.Sym != nil {
		return t.Sym, true
	}
	// representable iff round trip holds
	if t.T.IsZero() {
		return nil, false
	}
	ns := t.T.UnixNano()
	if time.Unix(0, ns).Equal(t.T) {
		return in.ts.BV(64, uint64(ns)), true
	}
	return nil, false
}

func (in *Interp) timeStructEq(a, b TimeV) *Term {
	// == on time.Time compares representation; the package never does this
	// on anything but zero values. Approximate by instant+location equality.
	if a.Sym == nil && b.Sym == nil {
		return in.ts.Bool(a.T == b.T)
	}
	na, oka := in.timeNs(a)
	nb, okb := in.timeNs(b)
	if oka && okb {
		return in.ts.Eq(na, nb)
	}
	return in.ts.False
}

// cmpTimes returns terms (a<b, a==b).
func (in *Interp) cmpTimes(a, b TimeV) (*Term, *Term) {
	ts := in.ts
	if a.Sym == nil && b.Sym == nil {
		return ts.Bool(a.T.Before(b.T)), ts.Bool(a.T.Equal(b.T))
	}
	na, oka := in.timeNs(a)
	nb, okb := in.timeNs(b)
	switch {
	case oka && okb:
		return ts.Cmp(OSlt, na, nb), ts.Eq(na, nb)
	case oka: // b concrete, outside int64 ns range
		lo := time.Unix(0, math.MinInt64)
		return ts.Bool(!b.T.Before(lo)), ts.False
	default:
		lo := time.Unix(0, math.MinInt64)
		return ts.Bool(a.T.Before(lo)), ts.False
	}
}

func (in *Interp) registerTime(reg func(string, extFn)) {
	ts := in.ts
	tv := func(v Value) TimeV { return v.(TimeV) }
	reg("time.Unix", func(in *Interp, fr *frame, fn *ssa.Function, args []Value) Value {
		sec, nsec := args[0].(*Term), args[1].(*Term)
		if sec.IsConst() && nsec.IsConst() {
			return TimeV{T: time.Unix(sec.Int(), nsec.Int()), Set: true}
		}
		if sec.IsConst() && sec.C == 0 {
			return TimeV{Sym: nsec, Set: true}
		}
		in.unsupported("time.Unix with symbolic seconds")
		return nil
	})
	reg("(time.Time).UnixNano", func(in *Interp, fr *frame, fn *ssa.Function, args []Value) Value {
		t := tv(args[0])
		if t.Sym != nil {
			return t.Sym
		}
		return in.mkInt(t.T.UnixNano())
	})
	reg("(time.Time).Unix", func(in *Interp, fr *frame, fn *ssa.Function, args []Value) Value {
		return in.mkInt(in.timeNative(tv(args[0]), "Time.Unix").Unix())
	})
	reg("(time.Time).IsZero", func(in *Interp, fr *frame, fn *ssa.Function, args []Value) Value {
		t := tv(args[0])
		if t.Sym != nil {
			return ts.False
		}
		return ts.Bool(t.T.IsZero())
	})
	reg("(time.Time).UTC", func(in *Interp, fr *frame, fn *ssa.Function, args []Value) Value {
		t := tv(args[0])
		if t.Sym != nil {
			return t
		}
		return TimeV{T: t.T.UTC(), Set: true}
	})
	reg("(time.Time).In", func(in *Interp, fr *frame, fn *ssa.Function, args []Value) Value {
		t := tv(args[0])
		if t.Sym != nil {
			return t
		}
		loc := in.locationOf(args[1])
		if loc == nil {
			in.goPanic(fr, Str{S: "time: missing Location in call to Time.In"}, "time: missing Location in call to Time.In")
		}
		return TimeV{T: t.T.In(loc), Set: true}
	})
	reg("(time.Time).Location", func(in *Interp, fr *frame, fn *ssa.Function, args []Value) Value {
		t := tv(args[0])
		if t.Sym != nil {
			return &Native{V: time.Local}
		}
		return &Native{V: t.T.Location()}
	})
	reg("(time.Time).Add", func(in *Interp, fr *frame, fn *ssa.Function, args []Value) Value {
		t := tv(args[0])
		d := args[1].(*Term)
		if t.Sym == nil && d.IsConst() {
			return TimeV{T: t.T.Add(time.Duration(d.Int())), Set: true}
		}
		n, ok := in.timeNs(t)
		if !ok {
			in.unsupported("Time.Add on out-of-range concrete time with symbolic duration")
		}
		sum := ts.Bin(OAdd, n, d)
		// signed overflow check
		ovf := ts.Or(
			ts.AndN(ts.Cmp(OSle, ts.BV(64, 0), n), ts.Cmp(OSle, ts.BV(64, 0), d), ts.Cmp(OSlt, sum, ts.BV(64, 0))),
			ts.AndN(ts.Cmp(OSlt, n, ts.BV(64, 0)), ts.Cmp(OSlt, d, ts.BV(64, 0)), ts.Cmp(OSle, ts.BV(64, 0), sum)))
		if in.branch(ovf, nil) {
			in.unsupported("Time.Add leaves the int64 nanosecond range (symbolic)")
		}
		return TimeV{Sym: sum, Set: true}
	})
	reg("(time.Time).Sub", func(in *Interp, fr *frame, fn *ssa.Function, args []Value) Value {
		a, b := tv(args[0]), tv(args[1])
		if a.Sym == nil && b.Sym == nil {
			return in.mkInt(int64(a.T.Sub(b.T)))
		}
		na, oka := in.timeNs(a)
		nb, okb := in.timeNs(b)
		if !oka || !okb {
			in.unsupported("Time.Sub with out-of-range concrete time")
		}
		diff := ts.Bin(OSub, na, nb)
		ovf := ts.Or(
			ts.AndN(ts.Cmp(OSle, ts.BV(64, 0), na), ts.Cmp(OSlt, nb, ts.BV(64, 0)), ts.Cmp(OSlt, diff, ts.BV(64, 0))),
			ts.AndN(ts.Cmp(OSlt, na, ts.BV(64, 0)), ts.Cmp(OSle, ts.BV(64, 0), nb), ts.Cmp(OSle, ts.BV(64, 0), diff)))
		// saturating as documented
		if in.branch(ovf, nil) {
			if in.branch(ts.Cmp(OSlt, na, nb), nil) {
				return in.mkInt(math.MinInt64)
			}
			return in.mkInt(math.MaxInt64)
		}
		return diff
	})
	reg("(time.Time).After", func(in *Interp, fr *frame, fn *ssa.Function, args []Value) Value {
		lt, _ := in.cmpTimes(tv(args[1]), tv(args[0]))
		return lt
	})
	reg("(time.Time).Before", func(in *Interp, fr *frame, fn *ssa.Function, args []Value) Value {
		lt, _ := in.cmpTimes(tv(args[0]), tv(args[1]))
		return lt
	})
	reg("(time.Time).Equal", func(in *Interp, fr *frame, fn *ssa.Function, args []Value) Value {
		_, eq := in.cmpTimes(tv(args[0]), tv(args[1]))
		return eq
	})
	reg("(time.Time).Format", func(in *Interp, fr *frame, fn *ssa.Function, args []Value) Value {
		return Str{S: in.timeNative(tv(args[0]), "Time.Format").Format(in.goString(args[1], "Time.Format"))}
	})
	reg("(time.Time).String", func(in *Interp, fr *frame, fn *ssa.Function, args []Value) Value {
		return Str{S: in.timeNative(tv(args[0]), "Time.String").String()}
	})
	reg("(time.Time).Truncate", func(in *Interp, fr *frame, fn *ssa.Function, args []Value) Value {
		d := in.concTerm(args[1], "Time.Truncate")
		return TimeV{T: in.timeNative(tv(args[0]), "Time.Truncate").Truncate(time.Duration(d.Int())), Set: true}
	})
	reg("time.ParseInLocation", func(in *Interp, fr *frame, fn *ssa.Function, args []Value) Value {
		loc := in.locationOf(args[2])
		if loc == nil {
			in.goPanic(fr, Str{S: "time: missing Location in call to Date"}, "time: missing Location in call to Date")
		}
		t, err := time.ParseInLocation(in.goString(args[0], "time.ParseInLocation"), in.goString(args[1], "time.ParseInLocation"), loc)
		return Tuple{TimeV{T: t, Set: true}, in.errOrNil(err)}
	})
	reg("time.Parse", func(in *Interp, fr *frame, fn *ssa.Function, args []Value) Value {
		t, err := time.Parse(in.goString(args[0], "time.Parse"), in.goString(args[1], "time.Parse"))
		return Tuple{TimeV{T: t, Set: true}, in.errOrNil(err)}
	})
	reg("time.LoadLocation", func(in *Interp, fr *frame, fn *ssa.Function, args []Value) Value {
		loc, err := time.LoadLocation(in.goString(args[0], "time.LoadLocation"))
		if err != nil {
			return Tuple{(*Value)(nil), in.errOrNil(err)}
		}
		return Tuple{in.locNative(loc), Iface{}}
	})
	reg("(*time.Location).String", func(in *Interp, fr *frame, fn *ssa.Function, args []Value) Value {
		loc := in.locationOf(args[0])
		return Str{S: loc.String()}
	})
	reg("(time.Duration).String", func(in *Interp, fr *frame, fn *ssa.Function, args []Value) Value {
		d := in.concTerm(args[0], "Duration.String")
		return Str{S: time.Duration(d.Int()).String()}
	})
	reg("time.Now", func(in *Interp, fr *frame, fn *ssa.Function, args []Value) Value {
		in.unsupported("time.Now (nondeterministic clock) called")
		return nil
	})
}

// locations: *time.Location values are native handles; time.UTC / time.Local
// globals are mapped to canonical handles.
func (in *Interp) locNative(loc *time.Location) *Native {
	if n, ok := in.locs[loc]; ok {
		return n
	}
	n := &Native{V: loc}
	in.locs[loc] = n
	return n
}

func (in *Interp) locationOf(v Value) *time.Location {
	switch p := v.(type) {
	case *Native:
		if p == nil {
			return nil
		}
		return p.V.(*time.Location)
	case *Value:
		if p == nil {
			return nil
		}
	}
	in.unsupported("non-native *time.Location")
	return nil
}

func (in *Interp) timeGlobal(g *ssa.Global) (*Value, bool) {
	if g.Pkg == nil || g.Pkg.Pkg.Path() != "time" {
		return nil, false
	}
	var loc *time.Location
	switch g.Name() {
	case "UTC":
		loc = time.UTC
	case "Local":
		loc = time.Local
	default:
		return nil, false
	}
	p := new(Value)
	*p = in.locNative(loc)
	return p, true
}

var _ = types.Typ
