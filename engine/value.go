package main

import (
	"fmt"
	"go/types"
	"sort"
	"strings"
	"unicode/utf8"

	"golang.org/x/tools/go/ssa"
)

// Value is a value of the interpreted program.
//   *Term            bool, integers, floats (constant or symbolic)
//   Str              string (bytes concrete or symbolic, length concrete)
//   *Value           pointer
//   Struct, Array    aggregates (copied on load/store)
//   []Value          slice
//   *MapV            map
//   Iface            interface value
//   *ssa.Function, *Closure, *ssa.Builtin   func values
//   Tuple            multiple results
//   *Native          opaque native handle or engine-side model object
type Value interface{}

type Struct []Value
type Array []Value
type Tuple []Value

type Iface struct {
	T types.Type
	V Value
}

type Closure struct {
	Fn  *ssa.Function
	Env []Value
}

type Native struct {
	V interface{}
}

// ---- strings

type Str struct {
	S   string
	B   []*Term // non-nil => symbolic; len(B) is the length
	Opq bool    // opaque text (error messages built from symbolic data): never inspected
}

func opaqueUse(what string) {
	panic(pathEnd{Kind: "unsupported", Msg: "opaque error-message text inspected by " + what})
}

func (s Str) Len() int {
	if s.Opq {
		opaqueUse("len")
	}
	if s.B != nil {
		return len(s.B)
	}
	return len(s.S)
}

func (s Str) Concrete() bool { return s.B == nil && !s.Opq }

func (in *Interp) strBytes(s Str) []*Term {
	if s.Opq {
		opaqueUse("byte access")
	}
	if s.B != nil {
		return s.B
	}
	out := make([]*Term, len(s.S))
	for i := 0; i < len(s.S); i++ {
		out[i] = in.byteConst(s.S[i])
	}
	return out
}

func (in *Interp) byteConst(b byte) *Term {
	return in.byteTab[b]
}

func (in *Interp) strFromBytes(bs []*Term) Str {
	all := true
	for _, b := range bs {
		if !b.IsConst() {
			all = false
			break
		}
	}
	if all {
		buf := make([]byte, len(bs))
		for i, b := range bs {
			buf[i] = byte(b.C)
		}
		return Str{S: string(buf)}
	}
	cp := make([]*Term, len(bs))
	copy(cp, bs)
	return Str{B: cp}
}

func (in *Interp) strByte(s Str, i int) *Term {
	if s.Opq {
		opaqueUse("index")
	}
	if s.B != nil {
		return s.B[i]
	}
	return in.byteConst(s.S[i])
}

func (in *Interp) strConcat(a, b Str) Str {
	if a.Opq || b.Opq {
		return Str{Opq: true}
	}
	if a.B == nil && b.B == nil {
		return Str{S: a.S + b.S}
	}
	if a.Len() == 0 {
		return b
	}
	if b.Len() == 0 {
		return a
	}
	out := make([]*Term, 0, a.Len()+b.Len())
	out = append(out, in.strBytes(a)...)
	out = append(out, in.strBytes(b)...)
	return Str{B: out}
}

func (in *Interp) strSlice(s Str, lo, hi int) Str {
	if s.Opq {
		opaqueUse("slice")
	}
	if s.B == nil {
		return Str{S: s.S[lo:hi]}
	}
	return in.strFromBytes(s.B[lo:hi])
}

func (in *Interp) strEq(a, b Str) *Term {
	ts := in.ts
	if a.Opq || b.Opq {
		opaqueUse("comparison")
	}
	if a.Len() != b.Len() {
		return ts.False
	}
	if a.B == nil && b.B == nil {
		return ts.Bool(a.S == b.S)
	}
	r := ts.True
	for i := 0; i < a.Len(); i++ {
		r = ts.And(r, ts.Eq(in.strByte(a, i), in.strByte(b, i)))
		if r == ts.False {
			return r
		}
	}
	return r
}

// strLess builds a < b (bytewise lexicographic).
func (in *Interp) strLess(a, b Str) *Term {
	ts := in.ts
	if a.B == nil && b.B == nil {
		return ts.Bool(a.S < b.S)
	}
	n := a.Len()
	if b.Len() < n {
		n = b.Len()
	}
	// from the back: less_i = a[i]<b[i] || (a[i]==b[i] && less_{i+1}); base: len(a) < len(b)
	r := ts.Bool(a.Len() < b.Len())
	for i := n - 1; i >= 0; i-- {
		x, y := in.strByte(a, i), in.strByte(b, i)
		r = ts.Or(ts.Cmp(OUlt, x, y), ts.And(ts.Eq(x, y), r))
	}
	return r
}

func (s Str) String() string {
	if s.Opq {
		return "<opaque>"
	}
	if s.B == nil {
		return s.S
	}
	var sb strings.Builder
	for _, b := range s.B {
		if b.IsConst() {
			sb.WriteByte(byte(b.C))
		} else {
			sb.WriteString("⟨" + b.String() + "⟩")
		}
	}
	return sb.String()
}

// ---- maps

type mapEnt struct {
	K, V Value
	Live bool
}

type MapV struct {
	T    *types.Map
	Ents []mapEnt
	Idx  map[string]int // concrete keys only
	NSym int            // number of live entries with symbolic keys
	N    int            // live entries
}

func newMap(t *types.Map) *MapV {
	return &MapV{T: t, Idx: map[string]int{}}
}

// keyString returns a canonical encoding of a fully concrete key.
func keyString(v Value) (string, bool) {
	switch v := v.(type) {
	case *Term:
		if !v.IsConst() {
			return "", false
		}
		return fmt.Sprintf("t%d:%d:%x", v.S.K, v.S.W, v.C), true
	case Str:
		if v.B != nil {
			return "", false
		}
		return "s" + v.S, true
	case Iface:
		if v.T == nil {
			return "inil", true
		}
		k, ok := keyString(v.V)
		return "i" + v.T.String() + "|" + k, ok
	case Struct:
		var sb strings.Builder
		sb.WriteString("S{")
		for _, f := range v {
			k, ok := keyString(f)
			if !ok {
				return "", false
			}
			fmt.Fprintf(&sb, "%d:%s,", len(k), k)
		}
		return sb.String(), true
	case Array:
		var sb strings.Builder
		sb.WriteString("A{")
		for _, f := range v {
			k, ok := keyString(f)
			if !ok {
				return "", false
			}
			fmt.Fprintf(&sb, "%d:%s,", len(k), k)
		}
		return sb.String(), true
	case *Value:
		return fmt.Sprintf("p%p", v), true
	case *Native:
		return fmt.Sprintf("n%p", v), true
	case *MapV:
		return fmt.Sprintf("m%p", v), true
	case nil:
		return "nil", true
	}
	panic(fmt.Sprintf("keyString: unhandled %T", v))
}

// ---- copying

func copyVal(v Value) Value {
	switch v := v.(type) {
	case Struct:
		c := make(Struct, len(v))
		for i, f := range v {
			c[i] = copyVal(f)
		}
		return c
	case Array:
		c := make(Array, len(v))
		for i, f := range v {
			c[i] = copyVal(f)
		}
		return c
	}
	return v
}

// ---- type helpers

func intInfo(t types.Type) (w int, signed bool, ok bool) {
	b, isB := t.Underlying().(*types.Basic)
	if !isB {
		return 0, false, false
	}
	switch b.Kind() {
	case types.Int, types.Int64, types.UntypedInt:
		return 64, true, true
	case types.Int32, types.UntypedRune:
		return 32, true, true
	case types.Int16:
		return 16, true, true
	case types.Int8:
		return 8, true, true
	case types.Uint, types.Uint64, types.Uintptr:
		return 64, false, true
	case types.Uint32:
		return 32, false, true
	case types.Uint16:
		return 16, false, true
	case types.Uint8:
		return 8, false, true
	}
	return 0, false, false
}

func isFloat(t types.Type) (Sort, bool) {
	b, isB := t.Underlying().(*types.Basic)
	if !isB {
		return Sort{}, false
	}
	switch b.Kind() {
	case types.Float64, types.UntypedFloat:
		return SF64, true
	case types.Float32:
		return SF32, true
	}
	return Sort{}, false
}

func isString(t types.Type) bool {
	b, ok := t.Underlying().(*types.Basic)
	return ok && b.Info()&types.IsString != 0
}

func isBool(t types.Type) bool {
	b, ok := t.Underlying().(*types.Basic)
	return ok && b.Info()&types.IsBoolean != 0
}

func namedIs(t types.Type, pkg, name string) bool {
	n, ok := t.(*types.Named)
	if !ok {
		return false
	}
	o := n.Obj()
	return o.Name() == name && o.Pkg() != nil && o.Pkg().Path() == pkg
}

func (in *Interp) zero(t types.Type) Value {
	if namedIs(t, "time", "Time") {
		return TimeV{}
	}
	switch u := t.Underlying().(type) {
	case *types.Basic:
		if u.Kind() == types.UnsafePointer {
			return (*Value)(nil)
		}
		if u.Kind() == types.UntypedNil {
			return nil
		}
		if u.Info()&types.IsBoolean != 0 {
			return in.ts.False
		}
		if u.Info()&types.IsString != 0 {
			return Str{}
		}
		if s, ok := isFloat(t); ok {
			return in.ts.FP(s, 0)
		}
		if w, _, ok := intInfo(t); ok {
			return in.ts.BV(w, 0)
		}
		panic("zero: basic " + u.String())
	case *types.Pointer:
		return (*Value)(nil)
	case *types.Struct:
		s := make(Struct, u.NumFields())
		for i := range s {
			s[i] = in.zero(u.Field(i).Type())
		}
		return s
	case *types.Array:
		a := make(Array, u.Len())
		for i := range a {
			a[i] = in.zero(u.Elem())
		}
		return a
	case *types.Slice:
		return []Value(nil)
	case *types.Map:
		return (*MapV)(nil)
	case *types.Interface:
		return Iface{}
	case *types.Signature:
		return nil
	case *types.Chan:
		return nil
	case *types.Tuple:
		tu := make(Tuple, u.Len())
		for i := range tu {
			tu[i] = in.zero(u.At(i).Type())
		}
		return tu
	}
	panic(fmt.Sprintf("zero: unhandled type %s", t))
}

// ---- rune helpers for symbolic strings

// encodeRuneConst returns the UTF-8 bytes of a concrete rune, as Go's string(rune) does.
func encodeRuneConst(r rune) []byte {
	var buf [4]byte
	n := utf8.EncodeRune(buf[:], r)
	return buf[:n]
}

func sortedKeys(m map[string]int) []string {
	ks := make([]string, 0, len(m))
	for k := range m {
		ks = append(ks, k)
	}
	sort.Strings(ks)
	return ks
}
