package main

// One persistent solver process per worker, SMT-LIB2 over pipes.

import (
	"bufio"
	"fmt"
	"io"
	"os/exec"
	"strconv"
	"strings"
	"time"
)

type Result int

const (
	Unsat Result = iota
	Sat
	Unknown
)

func (r Result) String() string { return [...]string{"unsat", "sat", "unknown"}[r] }

type Solver struct {
	name    string
	cmd     *exec.Cmd
	in      io.WriteCloser
	out     *bufio.Reader
	ts      *TermStore
	defined map[uint32]bool
	nUF     int
	ufDone  map[string]bool
	// statistics
	Queries  int
	NSat     int
	NUnsat   int
	NUnknown int
	Time     time.Duration
	Errors   []string
	timeoutMs int
	marker    int
	intMode   bool
	intOK     map[uint32]bool
	hiMemo    map[uint32]float64
	curTimeout int
	// script log of definitions, for cross-checking with another solver
	defLines []string
	logAll   bool
}

func solverArgv(name string, timeoutMs int) []string {
	switch name {
	case "z3":
		return []string{"z3", "-in", fmt.Sprintf("-t:%d", timeoutMs)}
	case "z3-new":
		return []string{"z3-new", "-in", fmt.Sprintf("-t:%d", timeoutMs)}
	case "cvc5":
		return []string{"cvc5", "--incremental", "--lang=smt2", fmt.Sprintf("--tlimit-per=%d", timeoutMs), "--produce-models", "--fp-exp"}
	}
	panic("unknown solver " + name)
}

func NewSolver(name string, ts *TermStore, timeoutMs int) (*Solver, error) {
	argv := solverArgv(name, timeoutMs)
	cmd := exec.Command(argv[0], argv[1:]...)
	in, err := cmd.StdinPipe()
	if err != nil {
		return nil, err
	}
	outp, err := cmd.StdoutPipe()
	if err != nil {
		return nil, err
	}
	cmd.Stderr = cmd.Stdout
	if err := cmd.Start(); err != nil {
		return nil, err
	}
	s := &Solver{name: name, cmd: cmd, in: in, out: bufio.NewReaderSize(outp, 1<<16), ts: ts,
		defined: map[uint32]bool{}, ufDone: map[string]bool{}, timeoutMs: timeoutMs, intOK: map[uint32]bool{}, hiMemo: map[uint32]float64{}}
	s.send("(set-option :produce-models true)")
	if name == "cvc5" {
		s.send("(set-logic ALL)")
	}
	return s, nil
}

// NewIntSolver starts a solver that uses the INT encoding (see intenc.go).
func NewIntSolver(name string, ts *TermStore, timeoutMs int) (*Solver, error) {
	s, err := NewSolver(name, ts, timeoutMs)
	if err != nil {
		return nil, err
	}
	s.intMode = true
	s.baseLine(intPrelude)
	return s, nil
}

// SetTimeout changes the per-query time limit of the running solver.
func (s *Solver) SetTimeout(ms int) {
	if s == nil || s.curTimeout == ms {
		return
	}
	s.curTimeout = ms
	if s.name == "cvc5" {
		s.send(fmt.Sprintf("(set-option :tlimit-per %d)", ms))
	} else {
		s.send(fmt.Sprintf("(set-option :timeout %d)", ms))
	}
}

func (s *Solver) Close() {
	if s == nil || s.cmd == nil {
		return
	}
	s.in.Close()
	done := make(chan struct{})
	go func() { s.cmd.Wait(); close(done) }()
	select {
	case <-done:
	case <-time.After(2 * time.Second):
		s.cmd.Process.Kill()
	}
	s.cmd = nil
}

func (s *Solver) send(line string) {
	io.WriteString(s.in, line)
	io.WriteString(s.in, "\n")
}

func (s *Solver) baseLine(line string) {
	s.defLines = append(s.defLines, line)
	s.send(line)
}

// define makes sure t and everything below it is known to the solver.
func (s *Solver) define(t *Term) {
	if t.Op == OConst {
		return
	}
	if s.defined[t.ID] {
		return
	}
	// iterative post-order to avoid deep recursion on long chains
	type fr struct {
		t *Term
		i int
	}
	stack := []fr{{t, 0}}
	for len(stack) > 0 {
		f := &stack[len(stack)-1]
		if f.i < int(f.t.N) {
			c := f.t.A[f.i]
			f.i++
			if c.Op != OConst && !s.defined[c.ID] {
				stack = append(stack, fr{c, 0})
			}
			continue
		}
		u := f.t
		stack = stack[:len(stack)-1]
		if s.defined[u.ID] {
			continue
		}
		s.defined[u.ID] = true
		if s.intMode {
			if u.Op == OVar {
				for _, l := range s.intDeclare(u) {
					s.baseLine(l)
				}
			} else {
				b, ok := s.intBody(u)
				if !ok {
					panic("intMode: unencodable term reached define")
				}
				s.baseLine(fmt.Sprintf("(define-fun t%d () %s %s)", u.ID, intSortOf(u), b))
				if u.S.K == KBV {
					s.baseLine(s.signedDef(u))
				}
			}
			continue
		}
		switch u.Op {
		case OVar:
			s.baseLine(fmt.Sprintf("(declare-const %s %s)", u.Name, u.S.smt()))
		default:
			if u.Op == OUF && !s.ufDone[u.Name] {
				s.ufDone[u.Name] = true
				s.baseLine(s.ts.ufs[u.Name])
			}
			s.baseLine(fmt.Sprintf("(define-fun t%d () %s %s)", u.ID, u.S.smt(), u.body()))
		}
	}
}

func (s *Solver) readLine() (string, error) {
	line, err := s.out.ReadString('\n')
	return strings.TrimSpace(line), err
}

// Check asks whether the conjunction of the given Bool terms is satisfiable.
func (s *Solver) Check(conj []*Term) Result {
	for _, c := range conj {
		if c.IsConst() && !c.Bool() {
			return Unsat
		}
	}
	start := time.Now()
	for _, c := range conj {
		s.define(c)
	}
	var sb strings.Builder
	sb.WriteString("(push 1)\n")
	for _, c := range conj {
		if c.IsConst() {
			continue
		}
		sb.WriteString("(assert " + c.ref() + ")\n")
	}
	sb.WriteString("(check-sat)")
	s.send(sb.String())
	res := s.readResult()
	if res != Sat {
		s.send("(pop 1)")
	}
	// on Sat the frame is left open so that the caller may ask for a model; it
	// must call EndQuery.
	s.Queries++
	switch res {
	case Sat:
		s.NSat++
	case Unsat:
		s.NUnsat++
	default:
		s.NUnknown++
	}
	s.Time += time.Since(start)
	if res != Sat {
		return res
	}
	return res
}

func (s *Solver) readUntilMarker() ([]string, error) {
	s.marker++
	m := fmt.Sprintf("@@%d@@", s.marker)
	s.send("(echo \"" + m + "\")")
	var lines []string
	for {
		line, err := s.readLine()
		if err != nil {
			s.Errors = append(s.Errors, "solver pipe: "+err.Error())
			return lines, err
		}
		if strings.Contains(line, m) {
			return lines, nil
		}
		if line != "" {
			lines = append(lines, line)
		}
	}
}

func (s *Solver) readResult() Result {
	lines, err := s.readUntilMarker()
	if err != nil {
		return Unknown
	}
	res := Unknown
	bad := false
	for _, line := range lines {
		switch {
		case line == "sat":
			res = Sat
		case line == "unsat":
			res = Unsat
		case line == "unknown" || line == "timeout":
			res = Unknown
		case strings.HasPrefix(line, "(error"):
			s.Errors = append(s.Errors, line)
			bad = true
		default:
			s.Errors = append(s.Errors, "unexpected: "+line)
			bad = true
		}
	}
	if bad {
		if res == Sat {
			// frame is open; close it so the stack stays balanced
			s.send("(pop 1)")
		}
		return Unknown
	}
	return res
}

// EndQuery pops the frame left open by a Sat answer.
func (s *Solver) EndQuery() { s.send("(pop 1)") }

// Model fetches values for the given variables; must be called after a Sat
// answer and before EndQuery.
func (s *Solver) Model(vars []*Term) (Model, error) {
	m := Model{}
	if len(vars) == 0 {
		return m, nil
	}
	// only variables the solver already knows can be asked for (a declaration
	// made now would sit inside the open frame and be popped with it); the
	// others are unconstrained and default to zero.
	var known []*Term
	for _, v := range vars {
		if s.defined[v.ID] {
			known = append(known, v)
		}
	}
	vars = known
	if len(vars) == 0 {
		return m, nil
	}
	var sb strings.Builder
	sb.WriteString("(get-value (")
	for _, v := range vars {
		sb.WriteString(v.Name + " ")
	}
	sb.WriteString("))")
	s.send(sb.String())
	// read a balanced s-expression
	text, err := s.readSexp()
	if err != nil {
		return nil, err
	}
	toks := tokenizeSexp(text)
	// expect ( (name value) ... )
	pos := 0
	var parse func() interface{}
	parse = func() interface{} {
		if pos >= len(toks) {
			return nil
		}
		t := toks[pos]
		pos++
		if t == "(" {
			var l []interface{}
			for pos < len(toks) && toks[pos] != ")" {
				l = append(l, parse())
			}
			pos++
			return l
		}
		return t
	}
	root, ok := parse().([]interface{})
	if !ok {
		return nil, fmt.Errorf("bad model text: %s", text)
	}
	byName := map[string]*Term{}
	for _, v := range vars {
		byName[v.Name] = v
	}
	for _, e := range root {
		pair, ok := e.([]interface{})
		if !ok || len(pair) != 2 {
			continue
		}
		name, _ := pair[0].(string)
		v := byName[name]
		if v == nil {
			continue
		}
		bits, err := parseSMTValue(pair[1], v.S)
		if err != nil {
			return nil, fmt.Errorf("model value of %s: %v (%s)", name, err, text)
		}
		m[v.ID] = bits
	}
	return m, nil
}

func (s *Solver) readSexp() (string, error) {
	lines, err := s.readUntilMarker()
	if err != nil {
		return "", err
	}
	text := strings.Join(lines, "\n")
	if strings.Contains(text, "(error") {
		s.Errors = append(s.Errors, text)
		return "", fmt.Errorf("solver error: %s", text)
	}
	return text, nil
}

func tokenizeSexp(s string) []string {
	var toks []string
	i := 0
	for i < len(s) {
		c := s[i]
		switch {
		case c == '(' || c == ')':
			toks = append(toks, string(c))
			i++
		case c == ' ' || c == '\n' || c == '\t' || c == '\r':
			i++
		default:
			j := i
			for j < len(s) && !strings.ContainsRune("() \n\t\r", rune(s[j])) {
				j++
			}
			toks = append(toks, s[i:j])
			i = j
		}
	}
	return toks
}

func parseBitsLiteral(s string) (uint64, int, error) {
	if strings.HasPrefix(s, "#x") {
		v, err := strconv.ParseUint(s[2:], 16, 64)
		return v, 4 * (len(s) - 2), err
	}
	if strings.HasPrefix(s, "#b") {
		v, err := strconv.ParseUint(s[2:], 2, 64)
		return v, len(s) - 2, err
	}
	return 0, 0, fmt.Errorf("not a bit literal: %s", s)
}

func parseSMTValue(v interface{}, s Sort) (uint64, error) {
	switch s.K {
	case KBool:
		if str, ok := v.(string); ok {
			if str == "true" {
				return 1, nil
			}
			if str == "false" {
				return 0, nil
			}
		}
		return 0, fmt.Errorf("bad bool %v", v)
	case KBV:
		if str, ok := v.(string); ok {
			if len(str) > 0 && str[0] >= '0' && str[0] <= '9' {
				return strconv.ParseUint(str, 10, 64)
			}
			b, _, err := parseBitsLiteral(str)
			return b, err
		}
		// (_ bv123 8)
		if l, ok := v.([]interface{}); ok && len(l) == 3 {
			if a, ok := l[1].(string); ok && strings.HasPrefix(a, "bv") {
				return strconv.ParseUint(a[2:], 10, 64)
			}
		}
		return 0, fmt.Errorf("bad bv %v", v)
	case KFP:
		l, ok := v.([]interface{})
		if !ok {
			return 0, fmt.Errorf("bad fp %v", v)
		}
		ebits, mbits := 11, 52
		if s.W == 32 {
			ebits, mbits = 8, 23
		}
		if len(l) == 4 {
			if h, _ := l[0].(string); h == "fp" {
				sg, _, e1 := parseBitsLiteral(l[1].(string))
				ex, _, e2 := parseBitsLiteral(l[2].(string))
				ma, _, e3 := parseBitsLiteral(l[3].(string))
				if e1 != nil || e2 != nil || e3 != nil {
					return 0, fmt.Errorf("bad fp parts %v", v)
				}
				return sg<<uint(ebits+mbits) | ex<<uint(mbits) | ma, nil
			}
			// (_ +zero 11 53) etc
			if h, _ := l[0].(string); h == "_" {
				kind, _ := l[1].(string)
				expAll := (uint64(1)<<uint(ebits) - 1) << uint(mbits)
				switch kind {
				case "+zero":
					return 0, nil
				case "-zero":
					return 1 << uint(ebits+mbits), nil
				case "+oo":
					return expAll, nil
				case "-oo":
					return 1<<uint(ebits+mbits) | expAll, nil
				case "NaN":
					return expAll | 1<<uint(mbits-1), nil
				}
			}
		}
		return 0, fmt.Errorf("bad fp %v", v)
	}
	return 0, fmt.Errorf("sort")
}

// Script renders a stand-alone SMT-LIB script for the given conjunction
// (used to cross-check a verdict with another solver binary).
func (s *Solver) Script(conj []*Term) string {
	var sb strings.Builder
	need := map[uint32]bool{}
	var order []*Term
	var visit func(t *Term)
	visit = func(t *Term) {
		if t.Op == OConst || need[t.ID] {
			return
		}
		need[t.ID] = true
		for i := 0; i < int(t.N); i++ {
			visit(t.A[i])
		}
		order = append(order, t)
	}
	for _, c := range conj {
		visit(c)
	}
	ufs := map[string]bool{}
	if s.intMode {
		sb.WriteString(intPrelude + "\n")
	}
	for _, u := range order {
		if s.intMode {
			if u.Op == OVar {
				for _, l := range s.intDeclare(u) {
					sb.WriteString(l + "\n")
				}
			} else {
				b, _ := s.intBody(u)
				fmt.Fprintf(&sb, "(define-fun t%d () %s %s)\n", u.ID, intSortOf(u), b)
				if u.S.K == KBV {
					sb.WriteString(s.signedDef(u) + "\n")
				}
			}
			continue
		}
		if u.Op == OVar {
			fmt.Fprintf(&sb, "(declare-const %s %s)\n", u.Name, u.S.smt())
		} else {
			if u.Op == OUF && !ufs[u.Name] {
				ufs[u.Name] = true
				sb.WriteString(s.ts.ufs[u.Name] + "\n")
			}
			fmt.Fprintf(&sb, "(define-fun t%d () %s %s)\n", u.ID, u.S.smt(), u.body())
		}
	}
	for _, c := range conj {
		sb.WriteString("(assert " + c.ref() + ")\n")
	}
	sb.WriteString("(check-sat)\n")
	return sb.String()
}

// OneShot runs a stand-alone script through a solver binary and returns its verdict.
func OneShot(solver string, script string, timeoutMs int) (Result, string) {
	argv := solverArgv(solver, timeoutMs)
	pre := ""
	if solver == "cvc5" {
		pre = "(set-logic ALL)\n"
		// non-incremental is fine for one shot
	}
	cmd := exec.Command(argv[0], argv[1:]...)
	cmd.Stdin = strings.NewReader(pre + script)
	out, _ := cmd.CombinedOutput()
	text := string(out)
	for _, line := range strings.Split(text, "\n") {
		l := strings.TrimSpace(line)
		if strings.HasPrefix(l, "(error") {
			return Unknown, text
		}
		switch l {
		case "sat":
			return Sat, text
		case "unsat":
			return Unsat, text
		}
	}
	return Unknown, text
}

// OneShotModel is OneShot plus model extraction for the given variables.
func OneShotModel(solver string, script string, vars []*Term, timeoutMs int) (Result, Model) {
	if len(vars) == 0 {
		r, _ := OneShot(solver, script, timeoutMs)
		return r, Model{}
	}
	var sb strings.Builder
	sb.WriteString("(set-option :produce-models true)\n")
	sb.WriteString(script)
	sb.WriteString("(get-value (")
	for _, v := range vars {
		sb.WriteString(v.Name + " ")
	}
	sb.WriteString("))\n")
	r, out := OneShot(solver, sb.String(), timeoutMs)
	if r != Sat {
		// an (error from get-value after unsat is expected; re-run plain to get a clean verdict
		if strings.Contains(out, "unsat") {
			r2, _ := OneShot(solver, script, timeoutMs)
			return r2, nil
		}
		return r, nil
	}
	i := strings.Index(out, "((")
	if i < 0 {
		return Sat, nil
	}
	toks := tokenizeSexp(out[i:])
	pos := 0
	var parse func() interface{}
	parse = func() interface{} {
		if pos >= len(toks) {
			return nil
		}
		t := toks[pos]
		pos++
		if t == "(" {
			var l []interface{}
			for pos < len(toks) && toks[pos] != ")" {
				l = append(l, parse())
			}
			pos++
			return l
		}
		return t
	}
	root, ok := parse().([]interface{})
	if !ok {
		return Sat, nil
	}
	byName := map[string]*Term{}
	for _, v := range vars {
		byName[v.Name] = v
	}
	m := Model{}
	for _, e := range root {
		pair, ok := e.([]interface{})
		if !ok || len(pair) != 2 {
			continue
		}
		name, _ := pair[0].(string)
		v := byName[name]
		if v == nil {
			continue
		}
		bits, err := parseSMTValue(pair[1], v.S)
		if err != nil {
			return Sat, nil
		}
		m[v.ID] = bits
	}
	return Sat, m
}
