package influxql

// Harness support: nondet sources, assume/assert, structural comparison.
// The symbolic engine intercepts every vf* function by name; the bodies below
// are the native implementations used when a counterexample is replayed with
// `go test`.

import (
	"fmt"
	"math"
	"reflect"
	"regexp"
	"time"
	"unsafe"
)

type vfEntry struct {
	K string `json:"k"`
	V string `json:"v"`
}

var (
	vfVec      []vfEntry
	vfPos      int
	vfFailures []string
	vfLabels   []string
	vfNotes    []string
)

type vfStop struct{ why string }

func vfNext(kind string) uint64 {
	if vfPos >= len(vfVec) {
		panic(vfStop{"replay vector exhausted at " + kind})
	}
	e := vfVec[vfPos]
	vfPos++
	if e.K != kind {
		panic(vfStop{fmt.Sprintf("replay vector kind mismatch at %d: have %s want %s", vfPos-1, e.K, kind)})
	}
	var v uint64
	fmt.Sscan(e.V, &v)
	return v
}

func vfBool() bool       { return vfNext("bool") != 0 }
func vfByte() byte       { return byte(vfNext("u8")) }
func vfRune() rune       { return rune(int32(uint32(vfNext("i32")))) }
func vfInt64() int64     { return int64(vfNext("i64")) }
func vfInt() int         { return int(int64(vfNext("i64"))) }
func vfUint64() uint64   { return vfNext("u64") }
func vfFloat64() float64 { return math.Float64frombits(vfNext("f64")) }
func vfChoice(n int) int {
	if n <= 1 {
		return 0
	}
	return int(vfNext("choice"))
}

func vfIteByte(c bool, x, y byte) byte {
	if c {
		return x
	}
	return y
}

func vfIteInt(c bool, x, y int) int {
	if c {
		return x
	}
	return y
}

func vfAssume(c bool) {
	if !c {
		panic(vfStop{"assumption false under replay vector"})
	}
}

func vfAssert(c bool, msg string) {
	if !c {
		vfFailures = append(vfFailures, msg)
		panic(vfStop{"ASSERTION FAILED: " + msg})
	}
}

func vfReach(label string) { vfLabels = append(vfLabels, label) }
func vfNote(s string)      { vfNotes = append(vfNotes, s) }
func vfSteps() int         { return 0 }

// vfSymbolic reports whether the harness runs under the symbolic engine.
func vfSymbolic() bool { return false }

// vfCatch runs f and reports whether it panicked.
func vfCatch(f func()) (panicked bool, msg string) {
	defer func() {
		if r := recover(); r != nil {
			if s, ok := r.(vfStop); ok {
				panic(s)
			}
			panicked = true
			msg = fmt.Sprint(r)
		}
	}()
	f()
	return false, ""
}

// vfFreeze marks everything reachable from the roots (and the package's
// global state) as frozen. Under the symbolic engine every store into a frozen
// object is counted. Natively a deep snapshot is taken instead and
// vfFrozenWrites reports whether any root differs from its snapshot.
var vfFrozenRoots, vfFrozenSnaps []interface{}
var vfFrozenIdents [][]uintptr

func vfFreeze(roots ...interface{}) {
	vfFrozenRoots, vfFrozenSnaps, vfFrozenIdents = nil, nil, nil
	for _, r := range roots {
		vfFrozenRoots = append(vfFrozenRoots, r)
		vfFrozenSnaps = append(vfFrozenSnaps, vfDeepCopy(r))
		vfFrozenIdents = append(vfFrozenIdents, vfIdentTrace(r))
	}
}

func vfFrozenWrites() int {
	n := 0
	for i := range vfFrozenRoots {
		if !vfDeepEqual(vfFrozenRoots[i], vfFrozenSnaps[i]) {
			n++
			continue
		}
		// same structure: a node replaced by an equal copy is a write as well
		a, b := vfIdentTrace(vfFrozenRoots[i]), vfFrozenIdents[i]
		same := len(a) == len(b)
		for k := 0; same && k < len(a); k++ {
			same = a[k] == b[k]
		}
		if !same {
			n++
		}
	}
	vfFrozenRoots, vfFrozenSnaps, vfFrozenIdents = nil, nil, nil
	return n
}

// vfIdentTrace lists, in traversal order, the addresses of every pointer, slice
// and map reachable from v: two traces differ when a node was replaced, even by
// a structurally equal one.
func vfIdentTrace(v interface{}) []uintptr {
	var out []uintptr
	seen := map[uintptr]bool{}
	var walk func(v reflect.Value)
	walk = func(v reflect.Value) {
		switch v.Kind() {
		case reflect.Interface:
			if !v.IsNil() {
				walk(v.Elem())
			}
		case reflect.Ptr:
			if v.IsNil() {
				out = append(out, 0)
				return
			}
			out = append(out, v.Pointer())
			switch v.Type() {
			case reflect.TypeOf((*regexp.Regexp)(nil)), reflect.TypeOf((*time.Location)(nil)):
				return
			}
			if seen[v.Pointer()] {
				return
			}
			seen[v.Pointer()] = true
			walk(v.Elem())
		case reflect.Struct:
			if v.Type() == reflect.TypeOf(time.Time{}) {
				return
			}
			for i := 0; i < v.NumField(); i++ {
				walk(v.Field(i))
			}
		case reflect.Slice:
			if v.IsNil() {
				out = append(out, 0)
				return
			}
			out = append(out, v.Pointer(), uintptr(v.Len()))
			for i := 0; i < v.Len(); i++ {
				walk(v.Index(i))
			}
		case reflect.Array:
			for i := 0; i < v.Len(); i++ {
				walk(v.Index(i))
			}
		case reflect.Map:
			out = append(out, v.Pointer(), uintptr(v.Len()))
		}
	}
	if v != nil {
		walk(reflect.ValueOf(v))
	}
	return out
}

// vfDeepCopy copies a value structurally, unexported fields included.
func vfDeepCopy(v interface{}) interface{} {
	if v == nil {
		return nil
	}
	src := reflect.ValueOf(v)
	dst := reflect.New(src.Type()).Elem()
	vfCopyInto(dst, src, map[uintptr]reflect.Value{})
	return dst.Interface()
}

func vfSettable(v reflect.Value) reflect.Value {
	if v.CanSet() {
		return v
	}
	return reflect.NewAt(v.Type(), unsafe.Pointer(v.UnsafeAddr())).Elem()
}

func vfReadable(v reflect.Value) reflect.Value {
	if v.CanInterface() || !v.CanAddr() {
		return v
	}
	return reflect.NewAt(v.Type(), unsafe.Pointer(v.UnsafeAddr())).Elem()
}

func vfCopyInto(dst, src reflect.Value, seen map[uintptr]reflect.Value) {
	dst = vfSettable(dst)
	src = vfReadable(src)
	switch src.Kind() {
	case reflect.Ptr:
		if src.IsNil() {
			return
		}
		switch src.Type() {
		case reflect.TypeOf((*regexp.Regexp)(nil)), reflect.TypeOf((*time.Location)(nil)):
			dst.Set(src)
			return
		}
		if c, ok := seen[src.Pointer()]; ok {
			dst.Set(c)
			return
		}
		n := reflect.New(src.Type().Elem())
		seen[src.Pointer()] = n
		vfCopyInto(n.Elem(), src.Elem(), seen)
		dst.Set(n)
	case reflect.Interface:
		if src.IsNil() {
			return
		}
		e := src.Elem()
		n := reflect.New(e.Type()).Elem()
		vfCopyInto(n, e, seen)
		dst.Set(n)
	case reflect.Struct:
		if src.Type() == reflect.TypeOf(time.Time{}) {
			dst.Set(src)
			return
		}
		for i := 0; i < src.NumField(); i++ {
			vfCopyInto(dst.Field(i), src.Field(i), seen)
		}
	case reflect.Slice:
		if src.IsNil() {
			return
		}
		n := reflect.MakeSlice(src.Type(), src.Len(), src.Len())
		for i := 0; i < src.Len(); i++ {
			vfCopyInto(n.Index(i), src.Index(i), seen)
		}
		dst.Set(n)
	case reflect.Array:
		for i := 0; i < src.Len(); i++ {
			vfCopyInto(dst.Index(i), src.Index(i), seen)
		}
	case reflect.Map:
		if src.IsNil() {
			return
		}
		n := reflect.MakeMap(src.Type())
		it := src.MapRange()
		for it.Next() {
			k := reflect.New(it.Key().Type()).Elem()
			vfCopyInto(k, it.Key(), seen)
			val := reflect.New(it.Value().Type()).Elem()
			vfCopyInto(val, it.Value(), seen)
			n.SetMapIndex(k, val)
		}
		dst.Set(n)
	default:
		dst.Set(src)
	}
}

func vfDisjoint(a, b interface{}) bool {
	sa := map[uintptr]bool{}
	vfCollect(reflect.ValueOf(a), sa)
	sb := map[uintptr]bool{}
	vfCollect(reflect.ValueOf(b), sb)
	for k := range sa {
		if sb[k] {
			return false
		}
	}
	return true
}

func vfCollect(v reflect.Value, out map[uintptr]bool) {
	switch v.Kind() {
	case reflect.Interface:
		if !v.IsNil() {
			vfCollect(v.Elem(), out)
		}
	case reflect.Ptr:
		if v.IsNil() {
			return
		}
		switch v.Type() {
		case reflect.TypeOf((*regexp.Regexp)(nil)), reflect.TypeOf((*time.Location)(nil)):
			return
		}
		if out[v.Pointer()] {
			return
		}
		out[v.Pointer()] = true
		vfCollect(v.Elem(), out)
	case reflect.Struct:
		if v.Type() == reflect.TypeOf(time.Time{}) {
			return
		}
		for i := 0; i < v.NumField(); i++ {
			vfCollect(v.Field(i), out)
		}
	case reflect.Slice:
		if v.IsNil() || v.Cap() == 0 {
			return
		}
		full := v.Slice3(0, v.Cap(), v.Cap())
		esz := v.Type().Elem().Size()
		for i := 0; i < full.Len(); i++ {
			out[full.Pointer()+uintptr(i)*esz] = true
		}
		for i := 0; i < v.Len(); i++ {
			vfCollect(v.Index(i), out)
		}
	case reflect.Array:
		for i := 0; i < v.Len(); i++ {
			vfCollect(v.Index(i), out)
		}
	case reflect.Map:
		if v.IsNil() {
			return
		}
		if out[v.Pointer()] {
			return
		}
		out[v.Pointer()] = true
		it := v.MapRange()
		for it.Next() {
			vfCollect(it.Key(), out)
			vfCollect(it.Value(), out)
		}
	}
}

// vfDeepEqual is structural equality over every field, exported or not.
// Regexps compare by pattern, locations by name, times by instant, NaN equals
// NaN, nil and empty slices are alike.
func vfDeepEqual(a, b interface{}) bool {
	return vfDeep(reflect.ValueOf(a), reflect.ValueOf(b), map[[2]uintptr]bool{})
}

func vfDeep(a, b reflect.Value, seen map[[2]uintptr]bool) bool {
	if !a.IsValid() || !b.IsValid() {
		return a.IsValid() == b.IsValid()
	}
	if a.Type() != b.Type() {
		return false
	}
	switch a.Kind() {
	case reflect.Interface:
		if a.IsNil() || b.IsNil() {
			return a.IsNil() == b.IsNil()
		}
		return vfDeep(a.Elem(), b.Elem(), seen)
	case reflect.Ptr:
		if a.IsNil() || b.IsNil() {
			return a.IsNil() == b.IsNil()
		}
		switch a.Type() {
		case reflect.TypeOf((*regexp.Regexp)(nil)):
			return a.MethodByName("String").Call(nil)[0].String() == b.MethodByName("String").Call(nil)[0].String()
		case reflect.TypeOf((*time.Location)(nil)):
			return a.MethodByName("String").Call(nil)[0].String() == b.MethodByName("String").Call(nil)[0].String()
		}
		if a.Pointer() == b.Pointer() {
			return true
		}
		k := [2]uintptr{a.Pointer(), b.Pointer()}
		if seen[k] {
			return true
		}
		seen[k] = true
		return vfDeep(a.Elem(), b.Elem(), seen)
	case reflect.Struct:
		if a.Type() == reflect.TypeOf(time.Time{}) {
			// unexported fields cannot be extracted via Interface(); compare instants
			ta := vfTimeOf(a)
			tb := vfTimeOf(b)
			return ta.Equal(tb)
		}
		for i := 0; i < a.NumField(); i++ {
			if !vfDeep(a.Field(i), b.Field(i), seen) {
				return false
			}
		}
		return true
	case reflect.Slice:
		if a.Len() != b.Len() {
			return false
		}
		for i := 0; i < a.Len(); i++ {
			if !vfDeep(a.Index(i), b.Index(i), seen) {
				return false
			}
		}
		return true
	case reflect.Array:
		for i := 0; i < a.Len(); i++ {
			if !vfDeep(a.Index(i), b.Index(i), seen) {
				return false
			}
		}
		return true
	case reflect.Map:
		if a.Len() != b.Len() {
			return false
		}
		it := a.MapRange()
		for it.Next() {
			bv := b.MapIndex(it.Key())
			if !bv.IsValid() || !vfDeep(it.Value(), bv, seen) {
				return false
			}
		}
		return true
	case reflect.Func:
		return a.IsNil() == b.IsNil()
	case reflect.String:
		return a.String() == b.String()
	case reflect.Bool:
		return a.Bool() == b.Bool()
	case reflect.Int, reflect.Int8, reflect.Int16, reflect.Int32, reflect.Int64:
		return a.Int() == b.Int()
	case reflect.Uint, reflect.Uint8, reflect.Uint16, reflect.Uint32, reflect.Uint64, reflect.Uintptr:
		return a.Uint() == b.Uint()
	case reflect.Float32, reflect.Float64:
		x, y := a.Float(), b.Float()
		return math.Float64bits(x) == math.Float64bits(y) || (x != x && y != y)
	}
	panic("vfDeepEqual: unhandled kind " + a.Kind().String())
}

func vfTimeOf(v reflect.Value) time.Time {
	if v.CanInterface() {
		return v.Interface().(time.Time)
	}
	// unexported field holding a time.Time: copy through an addressable clone
	c := reflect.New(v.Type()).Elem()
	// reflect forbids Set from unexported; rebuild from wall/ext/loc fields
	wall := v.Field(0).Uint()
	ext := v.Field(1).Int()
	var t time.Time
	if wall&(1<<63) != 0 {
		// monotonic reading present: seconds since 1885 in wall
		sec := int64(wall<<1>>31) + 59453308800 - 62135596800
		t = time.Unix(sec, int64(wall&(1<<30-1)))
	} else {
		t = time.Unix(ext-62135596800, int64(wall&(1<<30-1)))
	}
	_ = c
	return t
}
func vfIntArith() {}

func vfAnd(a, b bool) bool     { return a && b }
func vfOr(a, b bool) bool      { return a || b }
func vfImplies(a, b bool) bool { return !a || b }
func vfIteU64(c bool, x, y uint64) uint64 {
	if c {
		return x
	}
	return y
}
func vfIteI64(c bool, x, y int64) int64 {
	if c {
		return x
	}
	return y
}

// vfDigit returns a symbolic ASCII digit.
// vfConcreteHoles makes the simple holes of the statement generators concrete
// (used by harnesses that vary something else and do not want numeric reasoning).
var vfConcreteHoles bool

func vfDigit() byte {
	if vfConcreteHoles {
		return '3'
	}
	c := vfByte()
	vfAssume(c >= '0')
	vfAssume(c <= '9')
	return c
}

// vfASCII returns a symbolic byte in 0x01..0x7f.
func vfASCII() byte {
	c := vfByte()
	vfAssume(c >= 1)
	vfAssume(c < 0x80)
	return c
}

// sample non-ASCII characters (2, 3, 4 bytes; the last two have ASCII lower-case forms)
var vfWideSamples = []string{"é", "\uFFFD", "世", "𝄞", "İ", "K"}

// vfExprChar appends one character of an "expressible" string: a symbolic
// ASCII byte (never NUL or CR) or one of the sample multi-byte characters.
func vfExprChar(buf []byte, wide int) []byte {
	k := vfChoice(1 + wide)
	if k == 0 {
		c := vfByte()
		vfAssume(c < 0x80)
		vfAssume(c != 0)
		vfAssume(c != '\r')
		return append(buf, c)
	}
	return append(buf, vfWideSamples[k-1]...)
}

// vfExprString builds a string of exactly n expressible characters.
func vfExprString(n, wide int) string {
	var buf []byte
	for i := 0; i < n; i++ {
		buf = vfExprChar(buf, wide)
	}
	return string(buf)
}

// vfNoteRunes records a label and a list of code points (no UTF-8 encoding involved).
func vfNoteRunes(label string, rs []rune) {
	txt := label + " ["
	for i, r := range rs {
		if i > 0 {
			txt += " "
		}
		txt += fmt.Sprint(int64(r))
	}
	vfNotes = append(vfNotes, txt+"]")
}

// vfNativeNote records a note only when running natively (replay); used to
// print values whose formatting would fork or be unsupported symbolically.
func vfNativeNote(f func() string) {
	vfNotes = append(vfNotes, "native: "+f())
}

func fmtAny(v interface{}) string { return fmt.Sprintf("%T(%v)", v, v) }

// vfConcretize returns s itself; under the symbolic engine it forks over the
// feasible values of every byte and returns a concrete string (used to compare
// a symbolic library model against the native function).
func vfConcretize(s string) string { return s }
func vfLooseLibraries() {}

// vfRegexEquivLiterals: does the regular expression match exactly the given
// literals? Under the symbolic engine this is decided for ALL strings by the
// SMT theory of regular expressions; natively the two sides are evaluated on
// the witness string the solver produced (or on the empty string).
func vfRegexEquivLiterals(pattern string, lits []string) bool {
	if vfPos >= len(vfVec) || vfVec[vfPos].K != "str" {
		panic(vfStop{"replay vector: expected a witness string"})
	}
	var w []byte
	fmt.Sscanf(vfVec[vfPos].V, "%x", &w)
	vfPos++
	re, err := regexp.Compile(pattern)
	if err != nil {
		return true
	}
	in := false
	for _, l := range lits {
		if l == string(w) {
			in = true
		}
	}
	vfNotes = append(vfNotes, fmt.Sprintf("native: witness %q: regex matches=%v, in literal set=%v", string(w), re.MatchString(string(w)), in))
	return re.MatchString(string(w)) == in
}

// vfSharedWrites runs f with the package state and everything reachable from
// the roots frozen and returns the number of stores into frozen objects.
// Natively f is run twice concurrently (the replay is built with -race, so a
// write to shared state is reported by the race detector) and 0 is returned.
func vfSharedWrites(roots []interface{}, f func()) int {
	done := make(chan struct{}, 2)
	for i := 0; i < 2; i++ {
		go func() {
			defer func() { recover(); done <- struct{}{} }()
			f()
		}()
	}
	<-done
	<-done
	return 0
}
