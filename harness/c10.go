package influxql

import (
	"time"
)

// C10 — splitting a WHERE clause into time range and residual preserves its meaning.

type c10Point struct {
	t     int64
	host  string
	value int64
}

type c10Ctx struct {
	now   int64
	pt    c10Point
	names int
	// some time bound lies outside the representable timestamps [MinTime+1, MaxTime]:
	// the documented reason for ConditionExpr to fail
	outOfRange bool
}

// c10Cmp is the truth of `a OP b` for a symbolic comparison operator.
func c10Cmp(op Token, a, b int64) bool {
	r := vfAnd(op == EQ, a == b)
	r = vfOr(r, vfAnd(op == LT, a < b))
	r = vfOr(r, vfAnd(op == LTE, a <= b))
	r = vfOr(r, vfAnd(op == GT, a > b))
	r = vfOr(r, vfAnd(op == GTE, a >= b))
	return r
}

func c10CmpOp() Token {
	t := Token(vfInt())
	vfAssume(vfOr(vfOr(t == EQ, vfOr(t == LT, t == LTE)), vfOr(t == GT, t == GTE)))
	return t
}

// date/time string bounds (concrete; their parsing is not solver-quantified)
var c10Strings = []struct {
	s  string
	ns int64
}{
	{"2000-01-01T00:00:00Z", 946684800000000000},
	{"2000-01-01", 946684800000000000},
	{"1970-01-01T00:00:00.000000001Z", 1},
	{"2000-01-01 00:00:00.5", 946684800500000000},
}

// timeAtom builds a time comparison and returns it with its truth at the point.
// kind: 0 integer ns, 1 duration, 2 now() - d, 3 now() + d, 4.. concrete date strings
func (c *c10Ctx) timeAtom(kind int, timeOnLeft bool) (Expr, bool) {
	op := c10CmpOp()
	var bound Expr
	var v int64
	switch kind {
	case 0:
		v = vfInt64()
		bound = &IntegerLiteral{Val: v}
	case 1:
		v = vfInt64()
		bound = &DurationLiteral{Val: time.Duration(v)}
	case 2, 3:
		d := vfInt64()
		vfAssume(d >= -(1 << 61))
		vfAssume(d <= 1<<61)
		tok := SUB
		v = c.now - d
		if kind == 3 {
			tok = ADD
			v = c.now + d
		}
		bound = &BinaryExpr{Op: Token(tok), LHS: &Call{Name: "now"}, RHS: &DurationLiteral{Val: time.Duration(d)}}
	default:
		s := c10Strings[kind-4]
		v = s.ns
		bound = &StringLiteral{Val: s.s}
	}
	c.outOfRange = vfOr(c.outOfRange, vfOr(v < MinTime+1, v > MaxTime))
	tref := &VarRef{Val: "time"}
	if timeOnLeft {
		return &BinaryExpr{Op: op, LHS: tref, RHS: bound}, c10Cmp(op, c.pt.t, v)
	}
	// v OP time
	return &BinaryExpr{Op: op, LHS: bound, RHS: tref}, c10Cmp(op, v, c.pt.t)
}

// pred builds a non-time predicate and returns it with its truth at the point.
func (c *c10Ctx) pred(kind int) (Expr, bool) {
	switch kind {
	case 0: // host = 'x' / host != 'x'
		x := string([]byte{vfLower()})
		if vfChoice(2) == 0 {
			return &BinaryExpr{Op: EQ, LHS: &VarRef{Val: "host"}, RHS: &StringLiteral{Val: x}}, c.pt.host == x
		}
		return &BinaryExpr{Op: NEQ, LHS: &VarRef{Val: "host"}, RHS: &StringLiteral{Val: x}}, c.pt.host != x
	default: // value > n
		n := vfInt64()
		return &BinaryExpr{Op: GT, LHS: &VarRef{Val: "value"}, RHS: &IntegerLiteral{Val: n}}, c.pt.value > n
	}
}

func c10And(a Expr, ta bool, b Expr, tb bool) (Expr, bool) {
	return &BinaryExpr{Op: AND, LHS: a, RHS: b}, vfAnd(ta, tb)
}

func c10Paren(a Expr, ta bool) (Expr, bool) { return &ParenExpr{Expr: a}, ta }

func vfH_C10_split(tier int) {
	c := &c10Ctx{}
	c.now = vfInt64()
	vfAssume(c.now >= -(1 << 61))
	vfAssume(c.now <= 1<<61)
	c.pt.t = vfInt64()
	vfAssume(c.pt.t >= MinTime)
	vfAssume(c.pt.t <= MaxTime)
	c.pt.host = string([]byte{vfLower()})
	c.pt.value = vfInt64()

	nk := 4
	if tier > 0 {
		nk = 4 + len(c10Strings)
	}
	atom := func() (Expr, bool) {
		k := vfChoice(nk)
		if tier == 0 && k == 3 {
			// quick tier: the fourth kind alternates between now()+d and one date string
			if vfChoice(2) == 1 {
				k = 4
			}
		}
		return c.timeAtom(k, vfChoice(2) == 0)
	}
	// in the quick tier only the first time bound of a shape takes every form; the others are integer bounds
	atom2 := atom
	if tier == 0 {
		atom2 = func() (Expr, bool) { return c.timeAtom(0, vfChoice(2) == 0) }
	}
	var cond Expr
	var truth bool
	switch vfChoice(10) {
	case 0:
		cond, truth = atom()
	case 1:
		a, ta := atom()
		p, tp := c.pred(vfChoice(2))
		cond, truth = c10And(a, ta, p, tp)
	case 2:
		a, ta := atom()
		p, tp := c.pred(0)
		cond, truth = c10And(p, tp, a, ta)
	case 3:
		a, ta := atom()
		b, tb := atom2()
		cond, truth = c10And(a, ta, b, tb)
	case 4:
		a, ta := atom()
		b, tb := c.timeAtom(0, true)
		p, tp := c.pred(0)
		x, tx := c10And(a, ta, p, tp)
		x, tx = c10Paren(x, tx)
		cond, truth = c10And(x, tx, b, tb)
	case 5:
		a, ta := atom()
		b, tb := c.timeAtom(0, false)
		p, tp := c.pred(1)
		x, tx := c10And(a, ta, b, tb)
		x, tx = c10Paren(x, tx)
		cond, truth = c10And(p, tp, x, tx)
	case 6: // ta AND (p OR q)
		a, ta := atom()
		p, tp := c.pred(0)
		q, tq := c.pred(1)
		var o Expr = &ParenExpr{Expr: &BinaryExpr{Op: OR, LHS: p, RHS: q}}
		cond, truth = c10And(a, ta, o, vfOr(tp, tq))
	case 7: // three time bounds
		a, ta := c.timeAtom(0, true)
		b, tb := c.timeAtom(0, false)
		d, td := atom2()
		x, tx := c10And(a, ta, b, tb)
		cond, truth = c10And(x, tx, d, td)
	case 8: // no time bound at all
		p, tp := c.pred(0)
		q, tq := c.pred(1)
		cond, truth = c10And(p, tp, q, tq)
	default: // boolean literal conjunct
		a, ta := atom()
		bl := vfChoice(2) == 0
		cond, truth = c10And(a, ta, &BooleanLiteral{Val: bl}, bl)
	}

	valuer := &NowValuer{Now: time.Unix(0, c.now)}
	vfNativeNote(func() string { return cond.String() })
	residual, tr, err := ConditionExpr(cond, valuer)
	if err != nil {
		vfAssert(c.outOfRange, "C10/split-fails-only-for-out-of-range-bounds")
		vfReach("C10_split/rejected")
		return
	}
	inRange := vfAnd(tr.MinTimeNano() <= c.pt.t, c.pt.t <= tr.MaxTimeNano())
	rest := true
	if residual != nil {
		m := map[string]interface{}{"host": c.pt.host, "value": c.pt.value}
		rest = EvalBool(residual, m)
	}
	vfAssert(truth == vfAnd(inRange, rest), "C10/range-and-residual-equal-the-original-condition")
	// the clause is still the clause: splitting it again gives a range and residual with the same meaning
	residual2, tr2, err2 := ConditionExpr(cond, valuer)
	vfAssert(err2 == nil, "C10/second-split-of-the-same-clause-succeeds")
	if err2 == nil {
		inRange2 := vfAnd(tr2.MinTimeNano() <= c.pt.t, c.pt.t <= tr2.MaxTimeNano())
		rest2 := true
		if residual2 != nil {
			rest2 = EvalBool(residual2, map[string]interface{}{"host": c.pt.host, "value": c.pt.value})
		}
		vfAssert(truth == vfAnd(inRange2, rest2), "C10/second-split-of-the-same-clause-has-the-same-meaning")
	}
	vfReach("C10_split/ok")
}
