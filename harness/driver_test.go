package influxql

// Native replay driver: runs harness functions on recorded nondet vectors.
// VERIF_REPLAY names a JSON file: [{"id":..,"harness":..,"tier":..,"vector":[{k,v}..]}, ...]
// One line "VFRESULT <json>" is printed per entry.

import (
	"encoding/json"
	"fmt"
	"os"
	"testing"
	"time"
)

type vfReplayCase struct {
	ID      string    `json:"id"`
	Harness string    `json:"harness"`
	Tier    int       `json:"tier"`
	Vector  []vfEntry `json:"vector"`
}

type vfReplayResult struct {
	ID       string   `json:"id"`
	Outcome  string   `json:"outcome"` // done, assert, panic, mismatch, timeout
	Msg      string   `json:"msg,omitempty"`
	Failures []string `json:"failures,omitempty"`
	Labels   []string `json:"labels,omitempty"`
	Notes    []string `json:"notes,omitempty"`
	Used     int      `json:"used"`
}

func vfRunOne(c vfReplayCase) (res vfReplayResult) {
	res.ID = c.ID
	f := vfRegistry[c.Harness]
	if f == nil {
		res.Outcome = "mismatch"
		res.Msg = "unknown harness " + c.Harness
		return
	}
	vfVec, vfPos, vfFailures, vfLabels, vfNotes = c.Vector, 0, nil, nil, nil
	done := make(chan struct{})
	go func() {
		defer close(done)
		defer func() {
			if r := recover(); r != nil {
				if s, ok := r.(vfStop); ok {
					if len(vfFailures) > 0 {
						res.Outcome = "assert"
					} else {
						res.Outcome = "mismatch"
					}
					res.Msg = s.why
					return
				}
				res.Outcome = "panic"
				res.Msg = fmt.Sprint(r)
			}
		}()
		f(c.Tier)
		res.Outcome = "done"
	}()
	select {
	case <-done:
	case <-time.After(20 * time.Second):
		res.Outcome = "timeout"
		res.Msg = "harness did not finish in 20s"
	}
	res.Failures, res.Labels, res.Notes, res.Used = vfFailures, vfLabels, vfNotes, vfPos
	return
}

func TestVerifReplay(t *testing.T) {
	path := os.Getenv("VERIF_REPLAY")
	if path == "" {
		t.Skip("VERIF_REPLAY not set")
	}
	b, err := os.ReadFile(path)
	if err != nil {
		t.Fatal(err)
	}
	var cases []vfReplayCase
	if err := json.Unmarshal(b, &cases); err != nil {
		t.Fatal(err)
	}
	bad := 0
	for _, c := range cases {
		r := vfRunOne(c)
		out, _ := json.Marshal(r)
		fmt.Printf("VFRESULT %s\n", out)
		if r.Outcome != "done" {
			bad++
		}
	}
	if bad > 0 && os.Getenv("VERIF_REPLAY_STRICT") != "" {
		t.Fatalf("%d of %d replayed cases did not pass", bad, len(cases))
	}
}
