package main

// Regular-expression matching on symbolic subjects.
//
// MatchString: a Pike-style simulation of the real compiled program
// (regexp/syntax.Compile of the handle's own pattern) in which every thread
// carries a Bool term instead of being simply alive; the result is one Bool
// term, no forking. The subject's length is concrete; its symbolic bytes must
// be ASCII (a fork; the non-ASCII side is reported as unsupported).
//
// FindAllStringSubmatchIndex (leftmost-first semantics with captures) is
// modelled by a backtracking matcher that forks on every symbolic rune test.

import (
	"fmt"
	"os"
	"sort"
	"regexp"
	"regexp/syntax"
	"unicode"
	"unicode/utf8"
)

type reProg struct {
	prog *syntax.Prog
	ncap int
}

func (in *Interp) compileRe(re *regexp.Regexp) *reProg {
	if p, ok := in.reProgs[re.String()]; ok {
		return p
	}
	rx, err := syntax.Parse(re.String(), syntax.Perl)
	if err != nil {
		in.unsupported("regexp model: cannot parse %q: %v", re.String(), err)
	}
	ncap := rx.MaxCap()
	rx = rx.Simplify()
	prog, err := syntax.Compile(rx)
	if err != nil {
		in.unsupported("regexp model: cannot compile %q: %v", re.String(), err)
	}
	p := &reProg{prog: prog, ncap: ncap}
	in.reProgs[re.String()] = p
	return p
}

// subjectRunes splits the subject into runes (32-bit terms) with their byte offsets.
func (in *Interp) subjectRunes(fr *frame, s Str) ([]*Term, []int) {
	var rs []*Term
	var offs []int
	i := 0
	n := s.Len()
	for i < n {
		r, sz := in.decodeRune(fr, s, i)
		rs = append(rs, r)
		offs = append(offs, i)
		i += sz
	}
	offs = append(offs, n)
	return rs, offs
}

func (in *Interp) isWordTerm(r *Term) *Term {
	ts := in.ts
	k := func(c rune) *Term { return ts.BV(32, uint64(c)) }
	rng := func(lo, hi rune) *Term { return ts.And(ts.Cmp(OSle, k(lo), r), ts.Cmp(OSle, r, k(hi))) }
	return ts.OrN(rng('a', 'z'), rng('A', 'Z'), rng('0', '9'), ts.Eq(r, k('_')))
}

// emptyCond is the condition under which the zero-width assertion holds at rune position pos.
func (in *Interp) emptyCond(op syntax.EmptyOp, rs []*Term, pos int) *Term {
	ts := in.ts
	nl := ts.BV(32, '\n')
	c := ts.True
	if op&syntax.EmptyBeginText != 0 && pos != 0 {
		return ts.False
	}
	if op&syntax.EmptyEndText != 0 && pos != len(rs) {
		return ts.False
	}
	if op&syntax.EmptyBeginLine != 0 && pos != 0 {
		c = ts.And(c, ts.Eq(rs[pos-1], nl))
	}
	if op&syntax.EmptyEndLine != 0 && pos != len(rs) {
		c = ts.And(c, ts.Eq(rs[pos], nl))
	}
	if op&(syntax.EmptyWordBoundary|syntax.EmptyNoWordBoundary) != 0 {
		before, after := ts.False, ts.False
		if pos > 0 {
			before = in.isWordTerm(rs[pos-1])
		}
		if pos < len(rs) {
			after = in.isWordTerm(rs[pos])
		}
		boundary := ts.Not(ts.Eq(before, after))
		if op&syntax.EmptyWordBoundary != 0 {
			c = ts.And(c, boundary)
		}
		if op&syntax.EmptyNoWordBoundary != 0 {
			c = ts.And(c, ts.Not(boundary))
		}
	}
	return c
}

// runeCond is the condition under which instruction i matches rune r.
func (in *Interp) runeCond(i *syntax.Inst, r *Term) *Term {
	ts := in.ts
	k := func(c rune) *Term { return ts.BV(32, uint64(c)) }
	switch i.Op {
	case syntax.InstRuneAny:
		return ts.True
	case syntax.InstRuneAnyNotNL:
		return ts.Not(ts.Eq(r, k('\n')))
	}
	if r.IsConst() {
		return ts.Bool(i.MatchRune(rune(r.Int())))
	}
	rs := i.Rune
	if len(rs) == 1 {
		// single rune, possibly case-folded
		c := ts.Eq(r, k(rs[0]))
		if syntax.Flags(i.Arg)&syntax.FoldCase != 0 {
			for f := unicode.SimpleFold(rs[0]); f != rs[0]; f = unicode.SimpleFold(f) {
				c = ts.Or(c, ts.Eq(r, k(f)))
			}
		}
		return c
	}
	c := ts.False
	for j := 0; j+1 < len(rs); j += 2 {
		lo, hi := rs[j], rs[j+1]
		if lo == hi {
			c = ts.Or(c, ts.Eq(r, k(lo)))
		} else {
			c = ts.Or(c, ts.And(ts.Cmp(OSle, k(lo), r), ts.Cmp(OSle, r, k(hi))))
		}
	}
	return c
}

func (in *Interp) reMatchSym(fr *frame, re *regexp.Regexp, s Str) Value {
	ts := in.ts
	p := in.compileRe(re)
	rs, _ := in.subjectRunes(fr, s)
	prog := p.prog
	matched := ts.False
	var add func(set map[uint32]*Term, pc uint32, cond *Term, pos int, stack map[uint32]bool)
	add = func(set map[uint32]*Term, pc uint32, cond *Term, pos int, stack map[uint32]bool) {
		if cond == ts.False || stack[pc] {
			return
		}
		inst := &prog.Inst[pc]
		stack[pc] = true
		switch inst.Op {
		case syntax.InstAlt, syntax.InstAltMatch:
			add(set, inst.Out, cond, pos, stack)
			add(set, inst.Arg, cond, pos, stack)
		case syntax.InstCapture, syntax.InstNop:
			add(set, inst.Out, cond, pos, stack)
		case syntax.InstEmptyWidth:
			add(set, inst.Out, ts.And(cond, in.emptyCond(syntax.EmptyOp(inst.Arg), rs, pos)), pos, stack)
		case syntax.InstFail:
		case syntax.InstMatch:
			matched = ts.Or(matched, cond)
		default:
			if old, ok := set[pc]; ok {
				set[pc] = ts.Or(old, cond)
			} else {
				set[pc] = cond
			}
		}
		delete(stack, pc)
	}
	cur := map[uint32]*Term{}
	for pos := 0; pos <= len(rs); pos++ {
		// unanchored search: a match may start at every position
		add(cur, uint32(prog.Start), ts.True, pos, map[uint32]bool{})
		if pos == len(rs) {
			break
		}
		next := map[uint32]*Term{}
		pcs := make([]int, 0, len(cur))
		for pc := range cur {
			pcs = append(pcs, int(pc))
		}
		sort.Ints(pcs)
		for _, pci := range pcs {
			pc := uint32(pci)
			inst := &prog.Inst[pc]
			m := in.runeCond(inst, rs[pos])
			add(next, inst.Out, ts.And(cur[pc], m), pos+1, map[uint32]bool{})
		}
		cur = next
	}
	return matched
}

// ---- leftmost-first backtracking with captures (forks on symbolic rune tests)

func (in *Interp) reFindAllSym(fr *frame, re *regexp.Regexp, s Str, n int) Value {
	p := in.compileRe(re)
	rs, offs := in.subjectRunes(fr, s)
	var out []Value
	pos := 0
	prevEnd := -1
	for pos <= len(rs) && (n < 0 || len(out) < n) {
		caps := in.reFirstMatch(p, rs, pos)
		if caps == nil {
			break
		}
		start, end := caps[0], caps[1]
		accept := true
		if end == start && start == prevEnd {
			accept = false // empty match adjacent to the previous match is ignored (as the library does)
		}
		if accept {
			row := make([]Value, len(caps))
			for i, c := range caps {
				if c < 0 {
					row[i] = in.mkInt(-1)
				} else {
					row[i] = in.mkInt(int64(offs[c]))
				}
			}
			out = append(out, row)
		}
		prevEnd = end
		if end > start {
			pos = end
		} else {
			pos = end + 1
		}
	}
	if out == nil {
		return []Value(nil)
	}
	return out
}

// reFirstMatch finds the leftmost match starting the search at rune position from;
// returns capture positions in rune indices (nil if there is no match).
func (in *Interp) reFirstMatch(p *reProg, rs []*Term, from int) []int {
	for start := from; start <= len(rs); start++ {
		caps := make([]int, 2*(p.ncap+1))
		for i := range caps {
			caps[i] = -1
		}
		visited := map[[2]int]bool{}
		caps[0] = start // the whole match is not wrapped in a capture instruction
		if in.reBacktrack(p, rs, uint32(p.prog.Start), start, caps, visited) {
			return caps
		}
	}
	return nil
}

// reBacktrack explores threads in priority order; on concrete input this is
// RE2's leftmost-first semantics. Every test of a symbolic rune is a branch.
func (in *Interp) reBacktrack(p *reProg, rs []*Term, pc uint32, pos int, caps []int, visited map[[2]int]bool) bool {
	for {
		in.reSteps++
		if os.Getenv("SYMGO_RETRACE") != "" && in.reSteps < 300 {
			fmt.Fprintf(os.Stderr, "re: pc=%d pos=%d op=%v\n", pc, pos, p.prog.Inst[pc].Op)
		}
		if in.reSteps > 5_000_000 {
			in.unsupported("regexp backtracking model exceeded 5M steps (pc=%d pos=%d len=%d)", pc, pos, len(rs))
		}
		inst := &p.prog.Inst[pc]
		switch inst.Op {
		case syntax.InstFail:
			return false
		case syntax.InstMatch:
			caps[1] = pos
			return true
		case syntax.InstNop:
			pc = inst.Out
		case syntax.InstCapture:
			if int(inst.Arg) < len(caps) {
				old := caps[inst.Arg]
				caps[inst.Arg] = pos
				if in.reBacktrack(p, rs, inst.Out, pos, caps, visited) {
					return true
				}
				caps[inst.Arg] = old
				return false
			}
			pc = inst.Out
		case syntax.InstEmptyWidth:
			if !in.branch(in.emptyCond(syntax.EmptyOp(inst.Arg), rs, pos), nil) {
				return false
			}
			pc = inst.Out
		case syntax.InstAlt, syntax.InstAltMatch:
			// the visited set cuts empty loops; it is keyed by (pc,pos) which is
			// sound here because captures are restored on failure and a failed
			// (pc,pos) fails again under the same path condition
			key := [2]int{int(pc), pos}
			if visited[key] {
				return false
			}
			visited[key] = true
			saved := append([]int(nil), caps...)
			if in.reBacktrack(p, rs, inst.Out, pos, caps, visited) {
				return true
			}
			copy(caps, saved)
			pc = inst.Arg
		default: // rune instructions
			if pos >= len(rs) {
				return false
			}
			if !in.branch(in.runeCond(inst, rs[pos]), nil) {
				return false
			}
			pos++
			pc = inst.Out
		}
	}
}

var _ = utf8.RuneError
