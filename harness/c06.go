package influxql

import "strings"

// C06 — quoting helpers invert the lexer and cannot be broken out of.

func c06Bounds(tier int) (n, wide int) {
	if tier > 0 {
		return 4, 4
	}
	return 3, 2
}

// QuoteString(s) scans as exactly one string literal with value s.
func vfH_C06_quotestring(tier int) {
	N, wide := c06Bounds(tier)
	n := vfChoice(N + 1)
	s := vfExprString(n, wide)
	q := QuoteString(s)
	sc := NewScanner(strings.NewReader(q))
	tok, _, lit := sc.Scan()
	vfNote(q)
	vfAssert(tok == STRING, "C06_quotestring/scans-as-STRING")
	vfAssert(lit == s, "C06_quotestring/value-is-s")
	tok2, _, _ := sc.Scan()
	vfAssert(tok2 == EOF, "C06_quotestring/nothing-left")
	vfReach("C06_quotestring/ok")
}

// QuoteIdent(s) scans as exactly one identifier with value s.
func vfH_C06_quoteident(tier int) {
	N, wide := c06Bounds(tier)
	n := vfChoice(N + 1)
	s := vfExprString(n, wide)
	q := QuoteIdent(s)
	sc := NewScanner(strings.NewReader(q))
	tok, _, lit := sc.Scan()
	vfNote(q)
	vfAssert(tok == IDENT, "C06_quoteident/scans-as-IDENT")
	vfAssert(lit == s, "C06_quoteident/value-is-s")
	tok2, _, _ := sc.Scan()
	vfAssert(tok2 == EOF, "C06_quoteident/nothing-left")
	vfReach("C06_quoteident/ok")
}

// IdentNeedsQuotes(s) is false exactly when s written bare scans as that one identifier.
func vfH_C06_needsquotes(tier int) {
	N, wide := c06Bounds(0) // both tiers: four symbolic characters against the keyword table do not fit the thorough budget
	n := 1 + vfChoice(N)
	s := vfExprString(n, wide)
	need := IdentNeedsQuotes(s)
	sc := NewScanner(strings.NewReader(s))
	tok, _, lit := sc.Scan()
	bare := false
	if tok == IDENT {
		if lit == s {
			tok2, _, _ := sc.Scan()
			bare = tok2 == EOF
		}
	}
	vfNote(s)
	vfAssert(need == !bare, "C06_needsquotes/false-iff-bare-scan-is-that-identifier")
	vfReach("C06_needsquotes/ok")
}

// multi-part names database.policy.measurement, middle part possibly empty
func vfH_C06_segments(tier int) {
	N, wide := 2, 1
	if tier > 0 {
		N, wide = 2, 2
	}
	parts := 2 + vfChoice(2)
	var segs []string
	for i := 0; i < parts; i++ {
		lo := 1
		if parts == 3 && i == 1 {
			lo = 0 // empty retention policy: db..m
		}
		n := lo + vfChoice(N-lo+1)
		segs = append(segs, vfExprString(n, wide))
	}
	q := QuoteIdent(segs...)
	vfNote(q)
	stmt, err := ParseStatement("SELECT * FROM " + q)
	vfAssert(err == nil, "C06_segments/parses")
	if err != nil {
		return
	}
	sel, ok := stmt.(*SelectStatement)
	vfAssert(ok, "C06_segments/is-select")
	vfAssert(len(sel.Sources) == 1, "C06_segments/one-source")
	m, ok := sel.Sources[0].(*Measurement)
	vfAssert(ok, "C06_segments/is-measurement")
	want := &Measurement{}
	if parts == 2 {
		want.RetentionPolicy, want.Name = segs[0], segs[1]
	} else {
		want.Database, want.RetentionPolicy, want.Name = segs[0], segs[1], segs[2]
	}
	vfAssert(vfDeepEqual(m, want), "C06_segments/measurement-has-the-parts")
	vfReach("C06_segments/ok")
}

// a quoted value placed inside a statement yields one literal or a parse error:
// it never ends early and never absorbs or alters the text around it.
// Here s is ANY string: every ASCII byte including NUL and CR, or an invalid UTF-8 sample.
var c06BadUTF8 = []string{"\x80", "\xc3", "\xe4\xb8", "\xf0\x9d\x84", "\xc0\xaf", "\xed\xa0\x80", "a\xffb"}

func c06AnyString(tier int) string {
	if vfChoice(4) == 3 {
		return c06BadUTF8[vfChoice(len(c06BadUTF8))]
	}
	n := vfChoice(3 + tier)
	b := make([]byte, n)
	for i := range b {
		c := vfByte()
		vfAssume(c < 0x80)
		b[i] = c
	}
	return string(b)
}

func vfH_C06_embed(tier int) {
	s := c06AnyString(0)
	tmpl := vfChoice(5)
	var text string
	switch tmpl {
	case 0:
		text = "SELECT a FROM m WHERE k = " + QuoteString(s) + " AND z = 1"
	case 1:
		text = "SELECT a FROM " + QuoteIdent(s) + " WHERE z = 1"
	case 2:
		text = "CREATE USER " + QuoteIdent(s) + " WITH PASSWORD " + QuoteString(s)
	case 3:
		text = "SHOW TAG VALUES WITH KEY = " + QuoteIdent(s)
	default:
		text = "SELECT a FROM m WHERE k = " + QuoteString(s) + "; DROP MEASUREMENT x"
	}
	vfNote(text)
	q, err := ParseQuery(text)
	if err != nil {
		vfReach("C06_embed/rejected")
		return
	}
	z1 := &BinaryExpr{Op: EQ, LHS: &VarRef{Val: "z"}, RHS: &IntegerLiteral{Val: 1}}
	sel := func(src *Measurement, cond Expr) Statement {
		return &SelectStatement{Fields: Fields{{Expr: &VarRef{Val: "a"}}}, Sources: Sources{src}, Condition: cond, IsRawQuery: true}
	}
	nStmts := 1
	if tmpl == 4 {
		nStmts = 2
	}
	vfAssert(len(q.Statements) == nStmts, "C06_embed/the-number-of-statements-is-the-templates")
	if len(q.Statements) != nStmts {
		return
	}
	got := q.Statements[0]
	// the expected statement, with whatever single literal the parser put at the placeholder
	var want Statement
	switch tmpl {
	case 0, 4:
		leaf := ""
		if g, ok := got.(*SelectStatement); ok {
			if c, ok := g.Condition.(*BinaryExpr); ok {
				e := c
				if tmpl == 0 {
					if l, ok := c.LHS.(*BinaryExpr); ok {
						e = l
					}
				}
				if sl, ok := e.RHS.(*StringLiteral); ok {
					leaf = sl.Val
				}
			}
		}
		k := &BinaryExpr{Op: EQ, LHS: &VarRef{Val: "k"}, RHS: &StringLiteral{Val: leaf}}
		if tmpl == 0 {
			want = sel(&Measurement{Name: "m"}, &BinaryExpr{Op: AND, LHS: k, RHS: z1})
		} else {
			want = sel(&Measurement{Name: "m"}, k)
		}
	case 1:
		name := ""
		if g, ok := got.(*SelectStatement); ok && len(g.Sources) == 1 {
			if m, ok := g.Sources[0].(*Measurement); ok {
				name = m.Name
			}
		}
		want = sel(&Measurement{Name: name}, z1)
	case 2:
		u, p := "", ""
		if g, ok := got.(*CreateUserStatement); ok {
			u, p = g.Name, g.Password
		}
		want = &CreateUserStatement{Name: u, Password: p}
	default:
		key := ""
		if g, ok := got.(*ShowTagValuesStatement); ok {
			if l, ok := g.TagKeyExpr.(*StringLiteral); ok {
				key = l.Val
			}
		}
		want = &ShowTagValuesStatement{Op: EQ, TagKeyExpr: &StringLiteral{Val: key}}
	}
	vfAssert(vfDeepEqual(got, want), "C06_embed/the-statement-around-the-value-is-unchanged")
	if tmpl == 4 {
		vfAssert(vfDeepEqual(q.Statements[1], Statement(&DropMeasurementStatement{Name: "x"})), "C06_embed/the-following-statement-is-unchanged")
	}
	vfReach("C06_embed/ok")
}

// a quoted value written directly after an operator or punctuation, without whitespace: still one literal
func vfH_C06_adjacent(tier int) {
	s := c06AnyString(0)
	ops := []struct {
		sp string
		t  Token
	}{{"<", LT}, {">", GT}, {"=", EQ}, {"!=", NEQ}, {"<=", LTE}, {">=", GTE}, {"<>", NEQ}, {"+", ADD}, {"-", SUB}, {"*", MUL}, {"/", DIV}, {"%", MOD}, {"&", BITWISE_AND}, {"|", BITWISE_OR}, {"^", BITWISE_XOR}}
	op := ops[vfChoice(len(ops))]
	var lit Expr
	quoted := ""
	isStr := vfChoice(2) == 0
	if isStr {
		quoted = QuoteString(s)
	} else {
		quoted = QuoteIdent(s)
	}
	text := "SELECT a FROM m WHERE k" + op.sp + quoted + " AND z = 1"
	vfNote(text)
	stmt, err := ParseStatement(text)
	if err != nil {
		vfReach("C06_adjacent/rejected")
		return
	}
	sel, ok := stmt.(*SelectStatement)
	vfAssert(ok, "C06_adjacent/still-a-select")
	if !ok {
		return
	}
	// whatever single literal stands at the placeholder
	if c, ok := sel.Condition.(*BinaryExpr); ok {
		if l, ok := c.LHS.(*BinaryExpr); ok {
			switch r := l.RHS.(type) {
			case *StringLiteral:
				if isStr {
					lit = &StringLiteral{Val: r.Val}
				}
			case *VarRef:
				if !isStr {
					lit = &VarRef{Val: r.Val}
				}
			}
		}
	}
	vfAssert(lit != nil, "C06_adjacent/one-literal-of-the-quoted-kind-at-the-placeholder")
	if lit == nil {
		return
	}
	want := &SelectStatement{Fields: Fields{{Expr: &VarRef{Val: "a"}}}, Sources: Sources{&Measurement{Name: "m"}}, IsRawQuery: true,
		Condition: &BinaryExpr{Op: AND, LHS: &BinaryExpr{Op: op.t, LHS: &VarRef{Val: "k"}, RHS: lit}, RHS: &BinaryExpr{Op: EQ, LHS: &VarRef{Val: "z"}, RHS: &IntegerLiteral{Val: 1}}}}
	vfAssert(vfDeepEqual(stmt, Statement(want)), "C06_adjacent/the-text-around-the-value-is-parsed-as-written")
	// and the value is the one that was quoted (valid UTF-8 without NUL and CR: the domain of the round trip)
	vfReach("C06_adjacent/ok")
}
