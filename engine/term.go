package main

// Hash-consed term DAG with constant folding and light simplification.
// Scalars of the interpreted program (bool, all integer widths, float64) are
// always *Term: either a constant or a symbolic expression over nondet
// variables.

import (
	"fmt"
	"math"
	"math/bits"
	"strings"
)

type Kind uint8

const (
	KBool Kind = iota
	KBV
	KFP // float64 (W=64) or float32 (W=32)
)

type Sort struct {
	K Kind
	W uint8
}

var (
	SBool = Sort{KBool, 1}
	SF64  = Sort{KFP, 64}
	SF32  = Sort{KFP, 32}
)

func SBV(w int) Sort { return Sort{KBV, uint8(w)} }

func (s Sort) smt() string {
	switch s.K {
	case KBool:
		return "Bool"
	case KBV:
		return fmt.Sprintf("(_ BitVec %d)", s.W)
	case KFP:
		if s.W == 32 {
			return "(_ FloatingPoint 8 24)"
		}
		return "(_ FloatingPoint 11 53)"
	}
	panic("sort")
}

type Op uint8

const (
	OConst Op = iota
	OVar
	ONot
	OAnd
	OOr
	OIte
	OEq
	OAdd
	OSub
	OMul
	OUDiv
	OSDiv
	OURem
	OSRem
	OBAnd
	OBOr
	OBXor
	OShl
	OLShr
	OAShr
	ONeg
	OBNot
	OUlt
	OSlt
	OUle
	OSle
	OZExt   // I1 = target width
	OSExt   // I1 = target width
	OExtract // I1 = hi, I2 = lo
	OFAdd
	OFSub
	OFMul
	OFDiv
	OFNeg
	OFLt
	OFLe
	OFEq   // IEEE equality (NaN != NaN)
	OSIToFP
	OUIToFP
	OFPToSI // I1 = target width ; round toward zero
	OFPToUI
	OFPToFP // I1 = target width
	OFIsNaN
	OUF // uninterpreted function Name(args)
)

var opSMT = map[Op]string{
	ONot: "not", OAnd: "and", OOr: "or", OIte: "ite", OEq: "=",
	OAdd: "bvadd", OSub: "bvsub", OMul: "bvmul", OUDiv: "bvudiv", OSDiv: "bvsdiv",
	OURem: "bvurem", OSRem: "bvsrem", OBAnd: "bvand", OBOr: "bvor", OBXor: "bvxor",
	OShl: "bvshl", OLShr: "bvlshr", OAShr: "bvashr", ONeg: "bvneg", OBNot: "bvnot",
	OUlt: "bvult", OSlt: "bvslt", OUle: "bvule", OSle: "bvsle",
	OFAdd: "fp.add RNE", OFSub: "fp.sub RNE", OFMul: "fp.mul RNE", OFDiv: "fp.div RNE",
	OFNeg: "fp.neg", OFLt: "fp.lt", OFLe: "fp.leq", OFEq: "fp.eq", OFIsNaN: "fp.isNaN",
}

type Term struct {
	Op   Op
	S    Sort
	A    [3]*Term
	N    uint8 // number of args
	C    uint64
	Name string
	I1   int
	I2   int
	ID   uint32
}

type termKey struct {
	op         Op
	s          Sort
	a0, a1, a2 uint32
	c          uint64
	name       string
	i1, i2     int
}

// TermStore is per worker (no locking).
type TermStore struct {
	varsOf map[uint32][]uint32 // term ID -> sorted var IDs (memo)
	hasMul map[uint32]bool     // term ID -> contains a multiplication/division (memo)
	tab   map[termKey]*Term
	next  uint32
	True  *Term
	False *Term
	Vars  []*Term
	ufs   map[string]string // UF name -> declaration
}

func NewTermStore() *TermStore {
	ts := &TermStore{tab: map[termKey]*Term{}, next: 1, ufs: map[string]string{}, varsOf: map[uint32][]uint32{}, hasMul: map[uint32]bool{}}
	ts.True = ts.mk(&Term{Op: OConst, S: SBool, C: 1})
	ts.False = ts.mk(&Term{Op: OConst, S: SBool, C: 0})
	return ts
}

func (ts *TermStore) mk(t *Term) *Term {
	k := termKey{op: t.Op, s: t.S, c: t.C, name: t.Name, i1: t.I1, i2: t.I2}
	if t.A[0] != nil {
		k.a0 = t.A[0].ID
	}
	if t.A[1] != nil {
		k.a1 = t.A[1].ID
	}
	if t.A[2] != nil {
		k.a2 = t.A[2].ID
	}
	if old, ok := ts.tab[k]; ok {
		return old
	}
	t.ID = ts.next
	ts.next++
	ts.tab[k] = t
	return t
}

func mask(w uint8) uint64 {
	if w >= 64 {
		return ^uint64(0)
	}
	return (uint64(1) << w) - 1
}

func (t *Term) IsConst() bool { return t.Op == OConst }

// signed value of a BV const
func (t *Term) Int() int64 {
	w := t.S.W
	if w >= 64 {
		return int64(t.C)
	}
	sh := 64 - uint(w)
	return int64(t.C<<sh) >> sh
}
func (t *Term) Uint() uint64   { return t.C }
func (t *Term) Bool() bool     { return t.C != 0 }
func (t *Term) Float() float64 {
	if t.S.W == 32 {
		return float64(math.Float32frombits(uint32(t.C)))
	}
	return math.Float64frombits(t.C)
}

func (ts *TermStore) BV(w int, v uint64) *Term {
	return ts.mk(&Term{Op: OConst, S: SBV(w), C: v & mask(uint8(w))})
}
func (ts *TermStore) Bool(b bool) *Term {
	if b {
		return ts.True
	}
	return ts.False
}
func (ts *TermStore) F64(f float64) *Term {
	return ts.mk(&Term{Op: OConst, S: SF64, C: math.Float64bits(f)})
}
func (ts *TermStore) F32(f float32) *Term {
	return ts.mk(&Term{Op: OConst, S: SF32, C: uint64(math.Float32bits(f))})
}
func (ts *TermStore) FP(s Sort, f float64) *Term {
	if s.W == 32 {
		return ts.F32(float32(f))
	}
	return ts.F64(f)
}

func (ts *TermStore) Var(name string, s Sort) *Term {
	t := &Term{Op: OVar, S: s, Name: name}
	n := ts.next
	r := ts.mk(t)
	if r.ID == n {
		ts.Vars = append(ts.Vars, r)
	}
	return r
}

func (ts *TermStore) raw(op Op, s Sort, args ...*Term) *Term {
	t := &Term{Op: op, S: s, N: uint8(len(args))}
	copy(t.A[:], args)
	return ts.mk(t)
}

// ---- boolean connectives

func (ts *TermStore) Not(a *Term) *Term {
	if a.IsConst() {
		return ts.Bool(!a.Bool())
	}
	if a.Op == ONot {
		return a.A[0]
	}
	if a.Op == OIte && a.S.K == KBool && a.A[1].IsConst() && a.A[2].IsConst() {
		return ts.Ite(a.A[0], ts.Not(a.A[1]), ts.Not(a.A[2]))
	}
	return ts.raw(ONot, SBool, a)
}

func (ts *TermStore) And(a, b *Term) *Term {
	if a.IsConst() {
		if a.Bool() {
			return b
		}
		return ts.False
	}
	if b.IsConst() {
		if b.Bool() {
			return a
		}
		return ts.False
	}
	if a == b {
		return a
	}
	if ts.Not(a) == b {
		return ts.False
	}
	if l := ts.liftBool(OAnd, a, b); l != nil {
		return l
	}
	if a.ID > b.ID {
		a, b = b, a
	}
	return ts.raw(OAnd, SBool, a, b)
}

func (ts *TermStore) Or(a, b *Term) *Term {
	if a.IsConst() {
		if a.Bool() {
			return ts.True
		}
		return b
	}
	if b.IsConst() {
		if b.Bool() {
			return ts.True
		}
		return a
	}
	if a == b {
		return a
	}
	if ts.Not(a) == b {
		return ts.True
	}
	if l := ts.liftBool(OOr, a, b); l != nil {
		return l
	}
	if a.ID > b.ID {
		a, b = b, a
	}
	return ts.raw(OOr, SBool, a, b)
}

func (ts *TermStore) liftBool(op Op, a, b *Term) *Term {
	if c := sameCondIte(a, b); c != nil {
		x1, x2 := iteLeaves(a, c)
		y1, y2 := iteLeaves(b, c)
		f := ts.And
		if op == OOr {
			f = ts.Or
		}
		return ts.Ite(c, f(x1, y1), f(x2, y2))
	}
	return nil
}

func (ts *TermStore) AndN(xs ...*Term) *Term {
	r := ts.True
	for _, x := range xs {
		r = ts.And(r, x)
	}
	return r
}
func (ts *TermStore) OrN(xs ...*Term) *Term {
	r := ts.False
	for _, x := range xs {
		r = ts.Or(r, x)
	}
	return r
}

func (ts *TermStore) Ite(c, a, b *Term) *Term {
	if c.IsConst() {
		if c.Bool() {
			return a
		}
		return b
	}
	if a == b {
		return a
	}
	if c.Op == ONot {
		return ts.Ite(c.A[0], b, a)
	}
	if a.Op == OIte && a.A[0] == c {
		a = a.A[1]
	}
	if b.Op == OIte && b.A[0] == c {
		b = b.A[2]
	}
	if a == b {
		return a
	}
	if a.S.K == KBool {
		if a.IsConst() && b.IsConst() {
			if a.Bool() { // ite(c, true, false)
				return c
			}
			return ts.Not(c)
		}
		if a.IsConst() {
			if a.Bool() {
				return ts.Or(c, b)
			}
			return ts.And(ts.Not(c), b)
		}
		if b.IsConst() {
			if b.Bool() {
				return ts.Or(ts.Not(c), a)
			}
			return ts.And(c, a)
		}
	}
	return ts.raw(OIte, a.S, c, a, b)
}

// constLeafIte reports whether t is ite(c, k1, k2) with constant leaves.
func constLeafIte(t *Term) bool {
	return t.Op == OIte && t.A[1].IsConst() && t.A[2].IsConst()
}

// sameCondIte returns c when both are const or ite(c,k,k) with same c, and at least one is an ite.
func sameCondIte(a, b *Term) *Term {
	var c *Term
	if constLeafIte(a) {
		c = a.A[0]
	}
	if constLeafIte(b) {
		if c != nil && b.A[0] != c {
			return nil
		}
		c = b.A[0]
	}
	if c == nil {
		return nil
	}
	if !(a.IsConst() || constLeafIte(a)) || !(b.IsConst() || constLeafIte(b)) {
		return nil
	}
	return c
}

func iteLeaves(a *Term, c *Term) (*Term, *Term) {
	if a.Op == OIte && a.A[0] == c {
		return a.A[1], a.A[2]
	}
	return a, a
}

// ---- equality

func (ts *TermStore) Eq(a, b *Term) *Term {
	if a == b {
		if a.S.K == KFP {
			// structural equality of FP terms: used only for bit-identical; NaN handled by caller
		}
		return ts.True
	}
	if a.S != b.S {
		panic(fmt.Sprintf("Eq sort mismatch %v %v", a.S, b.S))
	}
	if a.IsConst() && b.IsConst() {
		return ts.Bool(a.C == b.C)
	}
	if a.S.K == KBool {
		if a.IsConst() {
			if a.Bool() {
				return b
			}
			return ts.Not(b)
		}
		if b.IsConst() {
			if b.Bool() {
				return a
			}
			return ts.Not(a)
		}
	}
	if c := sameCondIte(a, b); c != nil {
		x1, x2 := iteLeaves(a, c)
		y1, y2 := iteLeaves(b, c)
		return ts.Ite(c, ts.Eq(x1, y1), ts.Eq(x2, y2))
	}
	// zext(x) == const  -> x == const (if fits) else false
	if a.IsConst() {
		a, b = b, a
	}
	if b.IsConst() && a.Op == OZExt {
		x := a.A[0]
		if b.C&^mask(x.S.W) != 0 {
			return ts.False
		}
		return ts.Eq(x, ts.BV(int(x.S.W), b.C))
	}
	if b.IsConst() && a.Op == OIte {
		// ite(c, x, y) == k where one branch is const
		if a.A[1].IsConst() || a.A[2].IsConst() {
			return ts.Ite(a.A[0], ts.Eq(a.A[1], b), ts.Eq(a.A[2], b))
		}
	}
	if a.ID > b.ID {
		a, b = b, a
	}
	return ts.raw(OEq, SBool, a, b)
}

// ---- bit-vector arithmetic

func (ts *TermStore) foldBV(op Op, a, b *Term) (uint64, bool) {
	w := a.S.W
	x, y := a.C, b.C
	sx, sy := a.Int(), b.Int()
	switch op {
	case OAdd:
		return x + y, true
	case OSub:
		return x - y, true
	case OMul:
		return x * y, true
	case OUDiv:
		if y == 0 {
			return mask(w), true
		}
		return x / y, true
	case OURem:
		if y == 0 {
			return x, true
		}
		return x % y, true
	case OSDiv:
		if sy == 0 {
			if sx < 0 {
				return 1, true
			}
			return mask(w), true
		}
		if sy == -1 {
			return uint64(-sx), true
		}
		return uint64(sx / sy), true
	case OSRem:
		if sy == 0 {
			return x, true
		}
		if sy == -1 {
			return 0, true
		}
		return uint64(sx % sy), true
	case OBAnd:
		return x & y, true
	case OBOr:
		return x | y, true
	case OBXor:
		return x ^ y, true
	case OShl:
		if y >= uint64(w) {
			return 0, true
		}
		return x << y, true
	case OLShr:
		if y >= uint64(w) {
			return 0, true
		}
		return x >> y, true
	case OAShr:
		if y >= uint64(w) {
			if sx < 0 {
				return mask(w), true
			}
			return 0, true
		}
		return uint64(sx >> y), true
	}
	return 0, false
}

func (ts *TermStore) Bin(op Op, a, b *Term) *Term {
	if a.S != b.S {
		panic(fmt.Sprintf("Bin %d sort mismatch %v %v", op, a.S, b.S))
	}
	if a.IsConst() && b.IsConst() {
		if v, ok := ts.foldBV(op, a, b); ok {
			return ts.BV(int(a.S.W), v)
		}
	}
	if c := sameCondIte(a, b); c != nil {
		x1, x2 := iteLeaves(a, c)
		y1, y2 := iteLeaves(b, c)
		return ts.Ite(c, ts.Bin(op, x1, y1), ts.Bin(op, x2, y2))
	}
	w := int(a.S.W)
	switch op {
	case OAdd:
		if a.IsConst() && a.C == 0 {
			return b
		}
		if b.IsConst() && b.C == 0 {
			return a
		}
		if a.IsConst() { // canonical: const on the right
			a, b = b, a
		}
		// (x + k1) + k2
		if b.IsConst() && a.Op == OAdd && a.A[1].IsConst() {
			return ts.Bin(OAdd, a.A[0], ts.BV(w, a.A[1].C+b.C))
		}
	case OSub:
		if b.IsConst() && b.C == 0 {
			return a
		}
		if a == b {
			return ts.BV(w, 0)
		}
		if b.IsConst() {
			return ts.Bin(OAdd, a, ts.BV(w, -b.C))
		}
	case OMul:
		if a.IsConst() {
			a, b = b, a
		}
		if b.IsConst() {
			if b.C == 0 {
				return b
			}
			if b.C == 1 {
				return a
			}
		}
	case OBAnd:
		if a.IsConst() {
			a, b = b, a
		}
		if b.IsConst() {
			if b.C == 0 {
				return b
			}
			if b.C == mask(a.S.W) {
				return a
			}
		}
		if a == b {
			return a
		}
	case OBOr, OBXor:
		if a.IsConst() {
			a, b = b, a
		}
		if b.IsConst() && b.C == 0 {
			return a
		}
	case OShl, OLShr, OAShr:
		if b.IsConst() && b.C == 0 {
			return a
		}
	case OUDiv, OSDiv:
		if b.IsConst() && b.C == 1 {
			return a
		}
	}
	return ts.raw(op, a.S, a, b)
}

func (ts *TermStore) Neg(a *Term) *Term {
	if a.IsConst() {
		return ts.BV(int(a.S.W), -a.C)
	}
	if constLeafIte(a) {
		return ts.Ite(a.A[0], ts.Neg(a.A[1]), ts.Neg(a.A[2]))
	}
	if a.Op == ONeg {
		return a.A[0]
	}
	return ts.raw(ONeg, a.S, a)
}

func (ts *TermStore) BNot(a *Term) *Term {
	if a.IsConst() {
		return ts.BV(int(a.S.W), ^a.C)
	}
	return ts.raw(OBNot, a.S, a)
}

func (ts *TermStore) Cmp(op Op, a, b *Term) *Term {
	if a.S != b.S {
		panic(fmt.Sprintf("Cmp sort mismatch %v %v", a.S, b.S))
	}
	if a.IsConst() && b.IsConst() {
		switch op {
		case OUlt:
			return ts.Bool(a.C < b.C)
		case OUle:
			return ts.Bool(a.C <= b.C)
		case OSlt:
			return ts.Bool(a.Int() < b.Int())
		case OSle:
			return ts.Bool(a.Int() <= b.Int())
		}
	}
	if c := sameCondIte(a, b); c != nil {
		x1, x2 := iteLeaves(a, c)
		y1, y2 := iteLeaves(b, c)
		return ts.Ite(c, ts.Cmp(op, x1, y1), ts.Cmp(op, x2, y2))
	}
	if a == b {
		return ts.Bool(op == OUle || op == OSle)
	}
	// comparisons of zext(x) (x narrower) against a constant: reduce to x's width,
	// so that class assumptions made on bytes decide comparisons on runes.
	if a.Op == OZExt && b.IsConst() {
		x := a.A[0]
		xw := x.S.W
		neg := (op == OSlt || op == OSle) && b.Int() < 0
		if neg {
			return ts.False // zext >= 0
		}
		if b.C > mask(xw) {
			return ts.True
		}
		k := ts.BV(int(xw), b.C)
		if op == OSlt || op == OUlt {
			return ts.Cmp(OUlt, x, k)
		}
		return ts.Cmp(OUle, x, k)
	}
	if b.Op == OZExt && a.IsConst() {
		x := b.A[0]
		xw := x.S.W
		neg := (op == OSlt || op == OSle) && a.Int() < 0
		if neg {
			return ts.True
		}
		if a.C > mask(xw) {
			return ts.False
		}
		k := ts.BV(int(xw), a.C)
		if op == OSlt || op == OUlt {
			return ts.Cmp(OUlt, k, x)
		}
		return ts.Cmp(OUle, k, x)
	}
	// trivial unsigned bounds
	if op == OUlt && b.IsConst() && b.C == 0 {
		return ts.False
	}
	if op == OUle && a.IsConst() && a.C == 0 {
		return ts.True
	}
	if op == OUle && b.IsConst() && b.C == mask(b.S.W) {
		return ts.True
	}
	return ts.raw(op, SBool, a, b)
}

func (ts *TermStore) ZExt(a *Term, w int) *Term {
	if int(a.S.W) == w {
		return a
	}
	if a.IsConst() {
		return ts.BV(w, a.C)
	}
	if constLeafIte(a) {
		return ts.Ite(a.A[0], ts.ZExt(a.A[1], w), ts.ZExt(a.A[2], w))
	}
	if a.Op == OZExt {
		return ts.ZExt(a.A[0], w)
	}
	t := &Term{Op: OZExt, S: SBV(w), N: 1, I1: w}
	t.A[0] = a
	return ts.mk(t)
}

func (ts *TermStore) SExt(a *Term, w int) *Term {
	if int(a.S.W) == w {
		return a
	}
	if a.IsConst() {
		return ts.BV(w, uint64(a.Int()))
	}
	if constLeafIte(a) {
		return ts.Ite(a.A[0], ts.SExt(a.A[1], w), ts.SExt(a.A[2], w))
	}
	if a.Op == OZExt { // zext then sext = zext
		return ts.ZExt(a.A[0], w)
	}
	t := &Term{Op: OSExt, S: SBV(w), N: 1, I1: w}
	t.A[0] = a
	return ts.mk(t)
}

func (ts *TermStore) Extract(a *Term, hi, lo int) *Term {
	w := hi - lo + 1
	if lo == 0 && w == int(a.S.W) {
		return a
	}
	if a.IsConst() {
		return ts.BV(w, a.C>>uint(lo))
	}
	if constLeafIte(a) {
		return ts.Ite(a.A[0], ts.Extract(a.A[1], hi, lo), ts.Extract(a.A[2], hi, lo))
	}
	if (a.Op == OZExt || a.Op == OSExt) && lo == 0 {
		x := a.A[0]
		if w == int(x.S.W) {
			return x
		}
		if w < int(x.S.W) {
			return ts.Extract(x, hi, lo)
		}
		if a.Op == OZExt {
			return ts.ZExt(x, w)
		}
		return ts.SExt(x, w)
	}
	t := &Term{Op: OExtract, S: SBV(w), N: 1, I1: hi, I2: lo}
	t.A[0] = a
	return ts.mk(t)
}

// ---- floating point

func (ts *TermStore) FBin(op Op, a, b *Term) *Term {
	if a.IsConst() && b.IsConst() {
		x, y := a.Float(), b.Float()
		var r float64
		if a.S.W == 32 {
			x32, y32 := float32(x), float32(y)
			var r32 float32
			switch op {
			case OFAdd:
				r32 = x32 + y32
			case OFSub:
				r32 = x32 - y32
			case OFMul:
				r32 = x32 * y32
			case OFDiv:
				r32 = x32 / y32
			}
			return ts.F32(r32)
		}
		switch op {
		case OFAdd:
			r = x + y
		case OFSub:
			r = x - y
		case OFMul:
			r = x * y
		case OFDiv:
			r = x / y
		}
		return ts.F64(r)
	}
	return ts.raw(op, a.S, a, b)
}

func (ts *TermStore) FNeg(a *Term) *Term {
	if a.IsConst() {
		return ts.FP(a.S, -a.Float())
	}
	return ts.raw(OFNeg, a.S, a)
}

func (ts *TermStore) FCmp(op Op, a, b *Term) *Term {
	if a.IsConst() && b.IsConst() {
		x, y := a.Float(), b.Float()
		switch op {
		case OFLt:
			return ts.Bool(x < y)
		case OFLe:
			return ts.Bool(x <= y)
		case OFEq:
			return ts.Bool(x == y)
		}
	}
	return ts.raw(op, SBool, a, b)
}

func (ts *TermStore) FIsNaN(a *Term) *Term {
	if a.IsConst() {
		return ts.Bool(math.IsNaN(a.Float()))
	}
	return ts.raw(OFIsNaN, SBool, a)
}

func (ts *TermStore) IntToFP(a *Term, signed bool, s Sort) *Term {
	if a.IsConst() {
		if signed {
			return ts.FP(s, float64(a.Int()))
		}
		return ts.FP(s, float64(a.Uint()))
	}
	op := OUIToFP
	if signed {
		op = OSIToFP
	}
	t := &Term{Op: op, S: s, N: 1, I1: int(s.W)}
	t.A[0] = a
	return ts.mk(t)
}

func (ts *TermStore) FPToInt(a *Term, signed bool, w int) *Term {
	if a.IsConst() {
		f := a.Float()
		if signed {
			return ts.BV(w, uint64(int64(f)))
		}
		return ts.BV(w, uint64(f))
	}
	op := OFPToUI
	if signed {
		op = OFPToSI
	}
	t := &Term{Op: op, S: SBV(w), N: 1, I1: w}
	t.A[0] = a
	return ts.mk(t)
}

func (ts *TermStore) FPToFP(a *Term, s Sort) *Term {
	if a.S == s {
		return a
	}
	if a.IsConst() {
		return ts.FP(s, a.Float())
	}
	t := &Term{Op: OFPToFP, S: s, N: 1, I1: int(s.W)}
	t.A[0] = a
	return ts.mk(t)
}

func (ts *TermStore) UF(name string, s Sort, args ...*Term) *Term {
	if _, ok := ts.ufs[name]; !ok {
		var as []string
		for _, a := range args {
			as = append(as, a.S.smt())
		}
		ts.ufs[name] = fmt.Sprintf("(declare-fun %s (%s) %s)", name, strings.Join(as, " "), s.smt())
	}
	t := &Term{Op: OUF, S: s, N: uint8(len(args)), Name: name}
	copy(t.A[:], args)
	return ts.mk(t)
}

// ---- SMT-LIB printing. Every non-leaf term is introduced once as a
// zero-arity define-fun named t<ID>; queries reference those names.

func (t *Term) ref() string {
	switch t.Op {
	case OConst:
		switch t.S.K {
		case KBool:
			if t.C != 0 {
				return "true"
			}
			return "false"
		case KBV:
			if t.S.W%4 == 0 {
				return fmt.Sprintf("#x%0*x", int(t.S.W)/4, t.C)
			}
			return fmt.Sprintf("#b%0*b", int(t.S.W), t.C)
		case KFP:
			if t.S.W == 32 {
				b := uint32(t.C)
				return fmt.Sprintf("(fp #b%b #b%08b #b%023b)", b>>31, (b>>23)&0xff, b&0x7fffff)
			}
			b := t.C
			return fmt.Sprintf("(fp #b%b #b%011b #b%052b)", b>>63, (b>>52)&0x7ff, b&((1<<52)-1))
		}
	case OVar:
		return t.Name
	}
	return fmt.Sprintf("t%d", t.ID)
}

func (t *Term) body() string {
	var sb strings.Builder
	switch t.Op {
	case OZExt:
		fmt.Fprintf(&sb, "((_ zero_extend %d) %s)", t.I1-int(t.A[0].S.W), t.A[0].ref())
	case OSExt:
		fmt.Fprintf(&sb, "((_ sign_extend %d) %s)", t.I1-int(t.A[0].S.W), t.A[0].ref())
	case OExtract:
		fmt.Fprintf(&sb, "((_ extract %d %d) %s)", t.I1, t.I2, t.A[0].ref())
	case OSIToFP:
		fmt.Fprintf(&sb, "((_ to_fp %s) RNE %s)", fpDims(t.S), t.A[0].ref())
	case OUIToFP:
		fmt.Fprintf(&sb, "((_ to_fp_unsigned %s) RNE %s)", fpDims(t.S), t.A[0].ref())
	case OFPToSI:
		fmt.Fprintf(&sb, "((_ fp.to_sbv %d) RTZ %s)", t.I1, t.A[0].ref())
	case OFPToUI:
		fmt.Fprintf(&sb, "((_ fp.to_ubv %d) RTZ %s)", t.I1, t.A[0].ref())
	case OFPToFP:
		fmt.Fprintf(&sb, "((_ to_fp %s) RNE %s)", fpDims(t.S), t.A[0].ref())
	case OUF:
		sb.WriteString("(" + t.Name)
		for i := 0; i < int(t.N); i++ {
			sb.WriteString(" " + t.A[i].ref())
		}
		sb.WriteString(")")
	default:
		name, ok := opSMT[t.Op]
		if !ok {
			panic(fmt.Sprintf("no smt for op %d", t.Op))
		}
		sb.WriteString("(" + name)
		for i := 0; i < int(t.N); i++ {
			sb.WriteString(" " + t.A[i].ref())
		}
		sb.WriteString(")")
	}
	return sb.String()
}

func fpDims(s Sort) string {
	if s.W == 32 {
		return "8 24"
	}
	return "11 53"
}

// String renders a term as a nested expression (debug / evidence samples).
func (t *Term) String() string {
	return t.strDepth(6)
}

func (t *Term) strDepth(d int) string {
	if t.Op == OConst || t.Op == OVar {
		if t.Op == OConst && t.S.K == KBV {
			return fmt.Sprintf("%d", t.Int())
		}
		return t.ref()
	}
	if d == 0 {
		return fmt.Sprintf("t%d", t.ID)
	}
	var sb strings.Builder
	name := opSMT[t.Op]
	if name == "" {
		name = fmt.Sprintf("op%d", t.Op)
		if t.Op == OUF {
			name = t.Name
		}
	}
	sb.WriteString("(" + name)
	for i := 0; i < int(t.N); i++ {
		sb.WriteString(" " + t.A[i].strDepth(d-1))
	}
	sb.WriteString(")")
	return sb.String()
}

// ---- evaluation under a model (vars -> const terms)

type Model map[uint32]uint64 // var term ID -> raw bits

func (ts *TermStore) Eval(t *Term, m Model, memo map[uint32]*Term) *Term {
	if t.Op == OConst {
		return t
	}
	if r, ok := memo[t.ID]; ok {
		return r
	}
	var r *Term
	switch t.Op {
	case OVar:
		v := m[t.ID]
		switch t.S.K {
		case KBool:
			r = ts.Bool(v != 0)
		case KBV:
			r = ts.BV(int(t.S.W), v)
		case KFP:
			r = ts.mk(&Term{Op: OConst, S: t.S, C: v})
		}
	default:
		var a [3]*Term
		for i := 0; i < int(t.N); i++ {
			a[i] = ts.Eval(t.A[i], m, memo)
		}
		r = ts.rebuild(t, a)
	}
	memo[t.ID] = r
	return r
}

func (ts *TermStore) rebuild(t *Term, a [3]*Term) *Term {
	switch t.Op {
	case ONot:
		return ts.Not(a[0])
	case OAnd:
		return ts.And(a[0], a[1])
	case OOr:
		return ts.Or(a[0], a[1])
	case OIte:
		return ts.Ite(a[0], a[1], a[2])
	case OEq:
		return ts.Eq(a[0], a[1])
	case OAdd, OSub, OMul, OUDiv, OSDiv, OURem, OSRem, OBAnd, OBOr, OBXor, OShl, OLShr, OAShr:
		return ts.Bin(t.Op, a[0], a[1])
	case ONeg:
		return ts.Neg(a[0])
	case OBNot:
		return ts.BNot(a[0])
	case OUlt, OSlt, OUle, OSle:
		return ts.Cmp(t.Op, a[0], a[1])
	case OZExt:
		return ts.ZExt(a[0], t.I1)
	case OSExt:
		return ts.SExt(a[0], t.I1)
	case OExtract:
		return ts.Extract(a[0], t.I1, t.I2)
	case OFAdd, OFSub, OFMul, OFDiv:
		return ts.FBin(t.Op, a[0], a[1])
	case OFNeg:
		return ts.FNeg(a[0])
	case OFLt, OFLe, OFEq:
		return ts.FCmp(t.Op, a[0], a[1])
	case OFIsNaN:
		return ts.FIsNaN(a[0])
	case OSIToFP:
		return ts.IntToFP(a[0], true, t.S)
	case OUIToFP:
		return ts.IntToFP(a[0], false, t.S)
	case OFPToSI:
		return ts.FPToInt(a[0], true, t.I1)
	case OFPToUI:
		return ts.FPToInt(a[0], false, t.I1)
	case OFPToFP:
		return ts.FPToFP(a[0], t.S)
	case OUF:
		return ts.UF(t.Name, t.S, a[:t.N]...)
	}
	panic("rebuild")
}

var _ = bits.Len

// VarsOf returns the sorted IDs of the variables occurring in t.
func (ts *TermStore) VarsOf(t *Term) []uint32 {
	if t.Op == OConst {
		return nil
	}
	if v, ok := ts.varsOf[t.ID]; ok {
		return v
	}
	var out []uint32
	if t.Op == OVar {
		out = []uint32{t.ID}
	} else {
		for i := 0; i < int(t.N); i++ {
			out = mergeSorted(out, ts.VarsOf(t.A[i]))
		}
	}
	ts.varsOf[t.ID] = out
	return out
}

func mergeSorted(a, b []uint32) []uint32 {
	if len(a) == 0 {
		return b
	}
	if len(b) == 0 {
		return a
	}
	out := make([]uint32, 0, len(a)+len(b))
	i, j := 0, 0
	for i < len(a) && j < len(b) {
		switch {
		case a[i] < b[j]:
			out = append(out, a[i])
			i++
		case a[i] > b[j]:
			out = append(out, b[j])
			j++
		default:
			out = append(out, a[i])
			i++
			j++
		}
	}
	out = append(out, a[i:]...)
	out = append(out, b[j:]...)
	return out
}

// HasMul reports whether t contains a multiplication, division or remainder
// (the operations bit-blasting handles badly and the INT encoding handles well).
func (ts *TermStore) HasMul(t *Term) bool {
	if t.Op == OConst || t.Op == OVar {
		return false
	}
	if v, ok := ts.hasMul[t.ID]; ok {
		return v
	}
	r := false
	switch t.Op {
	case OMul, OUDiv, OSDiv, OURem, OSRem:
		r = true
	default:
		for i := 0; i < int(t.N) && !r; i++ {
			r = ts.HasMul(t.A[i])
		}
	}
	ts.hasMul[t.ID] = r
	return r
}
