package influxql

// C19 — required privileges cover everything a statement touches.

// administrative statement kinds, transcribed from the property statement
func c19IsAdmin(s Statement) bool {
	switch s.(type) {
	case *CreateUserStatement, *DropUserStatement, *GrantStatement, *GrantAdminStatement, *RevokeStatement, *RevokeAdminStatement,
		*SetPasswordUserStatement, *ShowGrantsForUserStatement, *ShowUsersStatement,
		*CreateDatabaseStatement, *DropDatabaseStatement,
		*CreateRetentionPolicyStatement, *AlterRetentionPolicyStatement,
		*CreateSubscriptionStatement, *DropSubscriptionStatement, *ShowSubscriptionsStatement,
		*DropShardStatement, *DropMeasurementStatement, *KillQueryStatement,
		*ShowShardsStatement, *ShowShardGroupsStatement, *ShowStatsStatement, *ShowDiagnosticsStatement:
		return true
	}
	return false
}

// c19Reads collects the database of every measurement read at any depth.
func c19Reads(s *SelectStatement, out []string) []string {
	for _, src := range s.Sources {
		switch src := src.(type) {
		case *Measurement:
			out = append(out, src.Database)
		case *SubQuery:
			out = c19Reads(src.Statement, out)
		}
	}
	return out
}

func c19HasPriv(ps ExecutionPrivileges, db string, want Privilege) bool {
	found := false
	for _, p := range ps {
		ok := vfAnd(p.Name == db, vfOr(p.Privilege == want, p.Privilege == AllPrivileges))
		found = vfOr(found, ok)
	}
	return found
}

func c19Check(kind int, tier int) {
	name := vfStmtGens[kind].name
	b, sb := vfBudget(name, tier)
	g := &vfGen{tier: tier, budget: b, sub: sb}
	vfStmtGens[kind].gen(g)
	text := g.text()
	vfNote(text)
	stmt, err := ParseStatement(text)
	if err != nil {
		return
	}
	ps, err := stmt.RequiredPrivileges()
	vfAssert(err == nil, "C19/"+name+"/privileges-without-error")
	if err != nil {
		return
	}
	vfAssert(len(ps) > 0, "C19/"+name+"/privilege-list-is-not-empty")
	if c19IsAdmin(stmt) {
		admin := false
		for _, p := range ps {
			admin = vfOr(admin, p.Admin)
		}
		vfAssert(admin, "C19/"+name+"/administrative-statement-requires-admin")
	}
	var sel *SelectStatement
	switch s := stmt.(type) {
	case *SelectStatement:
		sel = s
	case *ExplainStatement:
		sel = s.Statement
	}
	if sel != nil {
		for _, db := range c19Reads(sel, nil) {
			vfAssert(c19HasPriv(ps, db, ReadPrivilege), "C19/"+name+"/read-privilege-on-every-measurement-read")
		}
		if sel.Target != nil {
			vfAssert(c19HasPriv(ps, sel.Target.Measurement.Database, WritePrivilege), "C19/"+name+"/write-privilege-on-the-target")
		}
	}
	vfReach("C19_" + name + "/ok")
}

// nested subqueries with sources in several databases, plus an INTO target
func vfH_C19_nested(tier int) {
	g := &vfGen{tier: tier, budget: 1}
	depth := 1 + vfChoice(3)
	var build func(d int) string
	var dbs []string
	build = func(d int) string {
		if d == 0 {
			g2 := &vfGen{tier: tier, budget: 0, plainKW: true, plainWS: true}
			db := g2.ident()
			dbs = append(dbs, db)
			return db + ".rp.m"
		}
		inner := build(d - 1)
		g2 := &vfGen{tier: tier, budget: 0, plainKW: true, plainWS: true}
		db := g2.ident()
		dbs = append(dbs, db)
		return "(SELECT a FROM " + inner + "), " + db + "..x"
	}
	_ = g
	src := build(depth)
	tdb := string([]byte{vfLower()})
	text := "SELECT a INTO " + tdb + ".rp.t FROM " + src
	if vfChoice(2) == 1 {
		text = "EXPLAIN " + "SELECT a FROM " + src
		tdb = ""
	}
	vfNote(text)
	stmt, err := ParseStatement(text)
	vfAssert(err == nil, "C19/nested/accepted")
	if err != nil {
		return
	}
	ps, err := stmt.RequiredPrivileges()
	vfAssert(err == nil, "C19/nested/privileges-without-error")
	if err != nil {
		return
	}
	for _, db := range dbs {
		vfAssert(c19HasPriv(ps, db, ReadPrivilege), "C19/nested/read-privilege-on-every-measurement-read")
	}
	if tdb != "" {
		vfAssert(c19HasPriv(ps, tdb, WritePrivilege), "C19/nested/write-privilege-on-the-target")
	}
	vfReach("C19_nested/ok")
}

func vfH_C19_select(tier int) { c19Check(0, tier) }
func vfH_C19_explain(tier int) { c19Check(1, tier) }
func vfH_C19_delete(tier int) { c19Check(2, tier) }
func vfH_C19_dropseries(tier int) { c19Check(3, tier) }
func vfH_C19_showseries(tier int) { c19Check(4, tier) }
func vfH_C19_showseriescard(tier int) { c19Check(5, tier) }
func vfH_C19_showmeascard(tier int) { c19Check(6, tier) }
func vfH_C19_showtagkeycard(tier int) { c19Check(7, tier) }
func vfH_C19_showfieldkeycard(tier int) { c19Check(8, tier) }
func vfH_C19_showtagvalues(tier int) { c19Check(9, tier) }
func vfH_C19_showtagvaluescard(tier int) { c19Check(10, tier) }
func vfH_C19_showtagkeys(tier int) { c19Check(11, tier) }
func vfH_C19_showfieldkeys(tier int) { c19Check(12, tier) }
func vfH_C19_showmeasurements(tier int) { c19Check(13, tier) }
func vfH_C19_showrp(tier int) { c19Check(14, tier) }
func vfH_C19_showstats(tier int) { c19Check(15, tier) }
func vfH_C19_showdiag(tier int) { c19Check(16, tier) }
func vfH_C19_showgrants(tier int) { c19Check(17, tier) }
func vfH_C19_showsimple(tier int) { c19Check(18, tier) }
func vfH_C19_createdb(tier int) { c19Check(19, tier) }
func vfH_C19_createrp(tier int) { c19Check(20, tier) }
func vfH_C19_alterrp(tier int) { c19Check(21, tier) }
func vfH_C19_users(tier int) { c19Check(22, tier) }
func vfH_C19_grantrevoke(tier int) { c19Check(23, tier) }
func vfH_C19_dropsimple(tier int) { c19Check(24, tier) }
func vfH_C19_createsub(tier int) { c19Check(25, tier) }
func vfH_C19_createcq(tier int) { c19Check(26, tier) }

// every statement kind the parser can dispatch to must have a generator: the
// real Language tree is walked and compared with this list, so a newly added
// statement kind cannot go unchecked.
var c19Covered = map[string]bool{
	"SELECT": true, "DELETE": true, "EXPLAIN": true, "GRANT": true, "REVOKE": true,
	"SHOW CONTINUOUS QUERIES": true, "SHOW DATABASES": true, "SHOW DIAGNOSTICS": true, "SHOW FIELD KEY": true, "SHOW FIELD KEYS": true,
	"SHOW GRANTS FOR": true, "SHOW MEASUREMENT EXACT": true, "SHOW MEASUREMENT CARDINALITY": true, "SHOW MEASUREMENTS": true, "SHOW QUERIES": true,
	"SHOW RETENTION POLICIES": true, "SHOW SERIES": true, "SHOW SHARD GROUPS": true, "SHOW SHARDS": true, "SHOW STATS": true, "SHOW SUBSCRIPTIONS": true,
	"SHOW TAG KEY": true, "SHOW TAG KEYS": true, "SHOW TAG VALUES": true, "SHOW USERS": true,
	"CREATE CONTINUOUS QUERY": true, "CREATE DATABASE": true, "CREATE USER": true, "CREATE RETENTION POLICY": true, "CREATE SUBSCRIPTION": true,
	"DROP CONTINUOUS QUERY": true, "DROP DATABASE": true, "DROP MEASUREMENT": true, "DROP RETENTION POLICY": true, "DROP SERIES": true, "DROP SHARD": true,
	"DROP SUBSCRIPTION": true, "DROP USER": true, "ALTER RETENTION POLICY": true, "SET PASSWORD FOR": true, "KILL QUERY": true,
}

func c19Walk(t *ParseTree, prefix string, missing *[]string, n *int) {
	for tok := range t.Handlers {
		*n++
		p := prefix + tok.String()
		if !c19Covered[p] {
			*missing = append(*missing, p)
		}
	}
	for tok, sub := range t.Tokens {
		c19Walk(sub, prefix+tok.String()+" ", missing, n)
	}
}

func vfH_C19_coverage(tier int) {
	var missing []string
	n := 0
	c19Walk(Language, "", &missing, &n)
	for _, m := range missing {
		vfNote("no generator for statement kind: " + m)
	}
	vfAssert(len(missing) == 0, "C19/coverage/every-statement-kind-of-the-parse-tree-has-a-generator")
	vfAssert(n == len(c19Covered), "C19/coverage/generator-list-matches-the-parse-tree")
	vfReach("C19_coverage/ok")
}
