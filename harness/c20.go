package influxql

// C20 — result column names are complete, stable and unambiguous.

// c20Name returns a name whose first character is a solver variable (a or b)
// followed by one of the suffixes "", "_1", "_2", "_1_1": names can collide with each
// other, with aliases and with the generated suffix forms.
func c20Name(g *vfGen) string {
	c := vfIteByte(vfBool(), 'a', 'b')
	suffix := []string{"", "_1", "_2", "_1_1"}[g.pick(4)]
	return string([]byte{c}) + suffix
}

func vfH_C20_columns(tier int) {
	maxF := 3
	if tier > 0 {
		maxF = 4
	}
	g := &vfGen{tier: tier, budget: 2 + tier}
	s := &SelectStatement{}
	// statement-level options: one combination per path out of four
	opt := vfChoice(4)
	s.OmitTime = opt == 1
	if opt == 2 {
		s.TimeAlias = c20Name(g)
	}
	withTarget := opt == 3
	if withTarget {
		s.Target = &Target{Measurement: &Measurement{Name: "t", IsTarget: true}}
	}
	nf := 1 + vfChoice(maxF)
	extra := 0
	var aliases []string
	var aliasPos []int
	pos := 0
	for i := 0; i < nf; i++ {
		f := &Field{}
		switch g.pick(6) {
		case 0:
			f.Expr = &VarRef{Val: c20Name(g)}
		case 1:
			f.Expr = &Call{Name: c20Name(g), Args: []Expr{&VarRef{Val: "x"}}}
		case 2:
			f.Expr = &BinaryExpr{Op: ADD, LHS: &VarRef{Val: c20Name(g)}, RHS: &VarRef{Val: c20Name(g)}}
		case 3:
			f.Expr = &ParenExpr{Expr: &VarRef{Val: c20Name(g)}}
		case 4: // top/bottom with tag arguments
			name := "top"
			if g.pick(2) == 1 {
				name = "bottom"
			}
			args := []Expr{&VarRef{Val: "v"}}
			nt := 1 + g.pick(2)
			for k := 0; k < nt; k++ {
				args = append(args, &VarRef{Val: c20Name(g)})
			}
			args = append(args, &IntegerLiteral{Val: 3})
			f.Expr = &Call{Name: name, Args: args}
			if !withTarget {
				extra += nt
			}
			if g.pick(2) == 1 {
				f.Alias = c20Name(g)
			}
		default:
			f.Expr = &VarRef{Val: c20Name(g)}
			f.Alias = c20Name(g)
		}
		if f.Alias != "" {
			aliases = append(aliases, f.Alias)
			aliasPos = append(aliasPos, pos)
		}
		s.Fields = append(s.Fields, f)
		pos++
		if c, ok := f.Expr.(*Call); ok && !withTarget && (c.Name == "top" || c.Name == "bottom") {
			pos += len(c.Args) - 2
		}
	}
	// hypothesis: explicit aliases are pairwise distinct
	for i := 0; i < len(aliases); i++ {
		for j := i + 1; j < len(aliases); j++ {
			vfAssume(aliases[i] != aliases[j])
		}
	}
	before := s.Clone()
	cols := s.ColumnNames()
	offset := 1
	if s.OmitTime {
		offset = 0
	}
	vfAssert(len(cols) == offset+nf+extra, "C20/one-name-per-output-column")
	if len(cols) != offset+nf+extra {
		return
	}
	if !s.OmitTime {
		want := "time"
		if s.TimeAlias != "" {
			want = s.TimeAlias
		}
		vfAssert(cols[0] == want, "C20/time-column-first")
	}
	for k, p := range aliasPos {
		vfAssert(cols[offset+p] == aliases[k], "C20/explicit-alias-verbatim")
	}
	for i := offset; i < len(cols); i++ {
		for j := i + 1; j < len(cols); j++ {
			vfAssert(cols[i] != cols[j], "C20/field-columns-pairwise-distinct")
		}
	}
	again := s.ColumnNames()
	vfAssert(len(again) == len(cols), "C20/pure-same-length")
	for i := range cols {
		if i < len(again) {
			vfAssert(cols[i] == again[i], "C20/pure-same-names")
		}
	}
	vfAssert(vfDeepEqual(before, s), "C20/statement-unchanged")
	vfReach("C20_columns/ok")
}

// the time column's alias comes from RewriteTimeFields: only the field spelled exactly `time` is the time
// column; fields named Time / TIME (or anything else) stay ordinary columns, in order
func vfH_C20_timefields(tier int) {
	names := []string{"time", "Time", "TIME", "a", "b"}
	nf := 2 + vfChoice(2+tier)
	s := &SelectStatement{}
	timeAt := -1
	var want []string
	timeName := "time"
	for i := 0; i < nf; i++ {
		k := vfChoice(len(names))
		if k == 0 {
			if timeAt >= 0 {
				return // one time column per statement
			}
			timeAt = i
		}
		f := &Field{Expr: &VarRef{Val: names[k]}}
		if vfChoice(2) == 1 {
			f.Alias = "x" + string(rune('0'+i))
		}
		if k == 0 {
			if f.Alias != "" {
				timeName = f.Alias
			}
		} else {
			n := names[k]
			if f.Alias != "" {
				n = f.Alias
			}
			for _, w := range want {
				if w == n {
					return // repeated names get suffixes: the columns harness covers those
				}
			}
			want = append(want, n)
		}
		s.Fields = append(s.Fields, f)
	}
	vfNativeNote(func() string { return s.String() })
	s.RewriteTimeFields()
	cols := s.ColumnNames()
	vfAssert(len(cols) == 1+len(want), "C20/timefields/one-name-per-output-column")
	if len(cols) != 1+len(want) {
		return
	}
	vfAssert(cols[0] == timeName, "C20/timefields/time-column-or-its-alias-first")
	for i, w := range want {
		vfAssert(cols[1+i] == w, "C20/timefields/ordinary-fields-keep-their-columns-in-order")
	}
	vfReach("C20_timefields/ok")
}
