package main

// Regex language equivalence over ALL strings, decided by the SMT theory of
// strings and regular expressions (C11). The regex (Go syntax, parsed natively
// with the flags regexp.Compile uses) is translated into an SMT-LIB RegLan that
// denotes { s | regexp.MatchString(pattern, s) } - unanchored search semantics,
// anchors handled at the edges of the top-level alternatives - and compared
// with a finite set of literals.

import (
	"fmt"
	"regexp"
	"regexp/syntax"
	"strings"
	"unicode"

	"golang.org/x/tools/go/ssa"
)

func smtStr(s string) string {
	var sb strings.Builder
	sb.WriteByte('"')
	for _, r := range s {
		switch {
		case r == '"':
			sb.WriteString(`""`)
		case r >= 0x20 && r < 0x7f && r != '\\':
			sb.WriteRune(r)
		default:
			fmt.Fprintf(&sb, "\\u{%x}", r)
		}
	}
	sb.WriteByte('"')
	return sb.String()
}

const reAll = "(re.* re.allchar)"

type re2smt struct {
	err string
}

func (t *re2smt) fail(format string, a ...interface{}) string {
	if t.err == "" {
		t.err = fmt.Sprintf(format, a...)
	}
	return "re.none"
}

func (t *re2smt) runeSet(r rune, fold bool) string {
	if !fold {
		return "(str.to_re " + smtStr(string(r)) + ")"
	}
	alts := []string{"(str.to_re " + smtStr(string(r)) + ")"}
	for f := unicode.SimpleFold(r); f != r; f = unicode.SimpleFold(f) {
		alts = append(alts, "(str.to_re "+smtStr(string(f))+")")
	}
	if len(alts) == 1 {
		return alts[0]
	}
	return "(re.union " + strings.Join(alts, " ") + ")"
}

// body translates a regex without (supported) anchors.
func (t *re2smt) body(re *syntax.Regexp) string {
	switch re.Op {
	case syntax.OpNoMatch:
		return "re.none"
	case syntax.OpEmptyMatch:
		return `(str.to_re "")`
	case syntax.OpLiteral:
		fold := re.Flags&syntax.FoldCase != 0
		parts := make([]string, len(re.Rune))
		for i, r := range re.Rune {
			parts[i] = t.runeSet(r, fold)
		}
		if len(parts) == 1 {
			return parts[0]
		}
		return "(re.++ " + strings.Join(parts, " ") + ")"
	case syntax.OpCharClass:
		var parts []string
		for i := 0; i+1 < len(re.Rune); i += 2 {
			lo, hi := re.Rune[i], re.Rune[i+1]
			if hi > 0x2FFFF {
				hi = 0x2FFFF // the SMT-LIB character range
			}
			if lo > hi {
				continue
			}
			parts = append(parts, fmt.Sprintf("(re.range %s %s)", smtStr(string(lo)), smtStr(string(hi))))
		}
		switch len(parts) {
		case 0:
			return "re.none"
		case 1:
			return parts[0]
		}
		return "(re.union " + strings.Join(parts, " ") + ")"
	case syntax.OpAnyChar:
		return "re.allchar"
	case syntax.OpAnyCharNotNL:
		return `(re.diff re.allchar (str.to_re "\u{a}"))`
	case syntax.OpCapture:
		return t.body(re.Sub[0])
	case syntax.OpStar:
		return "(re.* " + t.body(re.Sub[0]) + ")"
	case syntax.OpPlus:
		return "(re.+ " + t.body(re.Sub[0]) + ")"
	case syntax.OpQuest:
		return "(re.opt " + t.body(re.Sub[0]) + ")"
	case syntax.OpRepeat:
		sub := t.body(re.Sub[0])
		if re.Max < 0 {
			return fmt.Sprintf("(re.++ ((_ re.loop %d %d) %s) (re.* %s))", re.Min, re.Min, sub, sub)
		}
		return fmt.Sprintf("((_ re.loop %d %d) %s)", re.Min, re.Max, sub)
	case syntax.OpConcat:
		parts := make([]string, len(re.Sub))
		for i, s := range re.Sub {
			parts[i] = t.body(s)
		}
		if len(parts) == 0 {
			return `(str.to_re "")`
		}
		if len(parts) == 1 {
			return parts[0]
		}
		return "(re.++ " + strings.Join(parts, " ") + ")"
	case syntax.OpAlternate:
		parts := make([]string, len(re.Sub))
		for i, s := range re.Sub {
			parts[i] = t.body(s)
		}
		if len(parts) == 1 {
			return parts[0]
		}
		return "(re.union " + strings.Join(parts, " ") + ")"
	}
	return t.fail("anchor or assertion %s in a position the translator cannot express", re.Op)
}

func stripCapture(re *syntax.Regexp) *syntax.Regexp {
	for re.Op == syntax.OpCapture {
		re = re.Sub[0]
	}
	return re
}

// search translates re under unanchored-search semantics: the set of whole strings in which re matches somewhere.
func (t *re2smt) search(re *syntax.Regexp) string {
	re = stripCapture(re)
	if re.Op == syntax.OpAlternate {
		parts := make([]string, len(re.Sub))
		for i, s := range re.Sub {
			parts[i] = t.search(s)
		}
		return "(re.union " + strings.Join(parts, " ") + ")"
	}
	var subs []*syntax.Regexp
	if re.Op == syntax.OpConcat {
		subs = re.Sub
	} else {
		subs = []*syntax.Regexp{re}
	}
	pre, suf := reAll, reAll
	// leading anchors
	for len(subs) > 0 {
		switch subs[0].Op {
		case syntax.OpBeginText:
			pre = `(str.to_re "")`
		case syntax.OpBeginLine:
			if pre == reAll {
				pre = `(re.opt (re.++ ` + reAll + ` (str.to_re "\u{a}")))`
			}
		default:
			goto tail
		}
		subs = subs[1:]
	}
tail:
	for len(subs) > 0 {
		switch subs[len(subs)-1].Op {
		case syntax.OpEndText:
			suf = `(str.to_re "")`
		case syntax.OpEndLine:
			if suf == reAll {
				suf = `(re.opt (re.++ (str.to_re "\u{a}") ` + reAll + `))`
			}
		default:
			goto done
		}
		subs = subs[:len(subs)-1]
	}
done:
	mid := `(str.to_re "")`
	if len(subs) > 0 {
		parts := make([]string, len(subs))
		for i, s := range subs {
			parts[i] = t.body(s)
		}
		if len(parts) == 1 {
			mid = parts[0]
		} else {
			mid = "(re.++ " + strings.Join(parts, " ") + ")"
		}
	}
	return "(re.++ " + pre + " " + mid + " " + suf + ")"
}

// regexEquivLiterals decides whether MatchString(pattern, s) <=> s in lits for every string s.
// Returns verdict ("equal", "differ", "inexpressible", "unknown") and a witness for "differ".
func regexEquivLiterals(pattern string, lits []string, timeoutMs int) (string, string, string) {
	rx, err := syntax.Parse(pattern, syntax.Perl)
	if err != nil {
		return "inexpressible", "", "parse: " + err.Error()
	}
	t := &re2smt{}
	lang := t.search(rx)
	if t.err != "" {
		return "inexpressible", "", t.err
	}
	var sb strings.Builder
	sb.WriteString("(set-option :produce-models true)\n(declare-const s String)\n")
	sb.WriteString("(define-fun inre () Bool (str.in_re s " + lang + "))\n")
	set := "false"
	if len(lits) > 0 {
		parts := make([]string, len(lits))
		for i, l := range lits {
			parts[i] = "(= s " + smtStr(l) + ")"
		}
		set = "(or " + strings.Join(parts, " ") + ")"
		if len(parts) == 1 {
			set = parts[0]
		}
	}
	sb.WriteString("(define-fun inset () Bool " + set + ")\n")
	sb.WriteString("(assert (not (= inre inset)))\n(check-sat)\n")
	script := sb.String()
	verdicts := map[string]Result{}
	witness := ""
	for _, solver := range []string{"z3-new", "cvc5"} {
		r, out := OneShot(solver, script+"(get-value (s))\n", timeoutMs)
		verdicts[solver] = r
		if r == Sat && witness == "" {
			witness = parseSMTString(out)
		}
	}
	a, b := verdicts["z3-new"], verdicts["cvc5"]
	switch {
	case a == Unsat && b == Unsat, a == Unsat && b == Unknown, a == Unknown && b == Unsat:
		return "equal", "", ""
	case a == Sat || b == Sat:
		if a == Unsat || b == Unsat {
			return "unknown", "", "solvers disagree"
		}
		return "differ", witness, ""
	}
	return "unknown", "", "no verdict"
}

// parseSMTString extracts the string literal of a (get-value (s)) answer.
func parseSMTString(out string) string {
	i := strings.Index(out, "((s \"")
	if i < 0 {
		return ""
	}
	rest := out[i+5:]
	var sb strings.Builder
	for k := 0; k < len(rest); k++ {
		c := rest[k]
		if c == '"' {
			if k+1 < len(rest) && rest[k+1] == '"' {
				sb.WriteByte('"')
				k++
				continue
			}
			break
		}
		if c == '\\' && k+2 < len(rest) && rest[k+1] == 'u' {
			// \u{hex} or \uXXXX
			j := k + 2
			hex := ""
			if rest[j] == '{' {
				e := strings.IndexByte(rest[j:], '}')
				hex = rest[j+1 : j+e]
				k = j + e
			} else {
				hex = rest[j : j+4]
				k = j + 3
			}
			var v int
			fmt.Sscanf(hex, "%x", &v)
			sb.WriteRune(rune(v))
			continue
		}
		sb.WriteByte(c)
	}
	return sb.String()
}

// intrinsic: vfRegexEquivLiterals(pattern string, lits []string) bool
func (in *Interp) regexEquivIntrinsic(fr *frame, fn *ssa.Function, args []Value) Value {
	pattern := in.goString(args[0], "vfRegexEquivLiterals")
	xs, _ := args[1].([]Value)
	lits := make([]string, len(xs))
	for i, x := range xs {
		lits[i] = in.goString(x, "vfRegexEquivLiterals")
	}
	verdict, witness, why := regexEquivLiterals(pattern, lits, in.cfg.TimeoutMs)
	in.stats.RegexQ++
	p := in.path
	switch verdict {
	case "equal":
		p.Nondets = append(p.Nondets, NondetRec{Kind: "str", Str: ""})
		p.AssertsOK++ // an obligation discharged by the solver over all strings
		return in.ts.True
	case "differ":
		// the witness becomes part of the replay vector: natively the harness evaluates both sides on it
		if _, err := regexp.Compile(pattern); err == nil {
			p.Nondets = append(p.Nondets, NondetRec{Kind: "str", Str: witness})
		}
		p.NoteVals = append(p.NoteVals, Str{S: fmt.Sprintf("regex /%s/ and literals %q differ on %q", pattern, lits, witness)})
		return in.ts.False
	case "inexpressible":
		p.Inconclusive = append(p.Inconclusive, fmt.Sprintf("regex /%s/ was rewritten to literals but cannot be translated: %s", pattern, why))
	default:
		p.Inconclusive = append(p.Inconclusive, fmt.Sprintf("regex /%s/: solver verdict unknown (%s)", pattern, why))
	}
	p.Nondets = append(p.Nondets, NondetRec{Kind: "str", Str: ""})
	return in.ts.True
}
