package influxql

import (
	"errors"
	"io"
)

// C05 — the lexer partitions its input and reports exact positions.
//
// The scanner is driven over a harness-owned io.RuneScanner that counts what
// is consumed, so the extent of every token is measured, not inferred.

type c05Src struct {
	runes     []rune
	pos       int
	eofReads  int // end-of-input reports that stand for a character position of their own
	canUnread bool
	afterCR   bool // the previous read returned CR: the next read is the reader's CRLF look-ahead
}

func (s *c05Src) ReadRune() (rune, int, error) {
	if s.pos >= len(s.runes) {
		if !s.afterCR {
			s.eofReads++
		}
		s.afterCR = false
		s.canUnread = false
		return 0, 0, io.EOF
	}
	r := s.runes[s.pos]
	s.pos++
	s.canUnread = true
	s.afterCR = false
	if r == '\r' {
		s.afterCR = true
	}
	return r, 1, nil
}

func (s *c05Src) UnreadRune() error {
	if !s.canUnread {
		return errors.New("invalid use of UnreadRune")
	}
	s.pos--
	s.canUnread = false
	return nil
}

// c05Logical folds CRLF and lone CR into single line breaks: the logical
// characters of the text with the raw offset at which each one ends.
type c05Logical struct {
	ch  []rune
	end []int // raw offset just after logical character i
}

func c05Fold(rs []rune) c05Logical {
	var l c05Logical
	for i := 0; i < len(rs); i++ {
		c := rs[i]
		if c == '\r' {
			if i+1 < len(rs) {
				if rs[i+1] == '\n' {
					i++
				}
			}
			c = '\n'
		}
		l.ch = append(l.ch, c)
		l.end = append(l.end, i+1)
	}
	return l
}

// logical index reached by the underlying source: number of logical characters fully consumed
func (l *c05Logical) consumed(rawPos int) int {
	k := 0
	for k < len(l.end) && l.end[k] <= rawPos {
		k++
	}
	return k
}

// reference position (zero-based line and column) of logical index j
func (l *c05Logical) posOf(j int) Pos {
	p := Pos{}
	for i := 0; i < j && i < len(l.ch); i++ {
		if l.ch[i] == '\n' {
			p.Line++
			p.Char = 0
		} else {
			p.Char++
		}
	}
	return p
}

// c05Tokens scans the text and checks extent, progress and position of each token.
func c05Tokens(rs []rune) {
	vfNoteRunes("text", rs)
	src := &c05Src{runes: rs}
	sc := &Scanner{r: &reader{r: src}}
	type rec struct {
		tok    Token
		pos    Pos
		lit    string
		rawEnd int
		eofs   int
		n      int
	}
	var recs []rec
	sawEOF := false
	for i := 0; i < len(rs)+2; i++ {
		tok, pos, lit := sc.Scan()
		recs = append(recs, rec{tok, pos, lit, src.pos, src.eofReads, sc.r.n})
		if tok == EOF {
			sawEOF = true
			break
		}
	}
	vfAssert(sawEOF, "C05/EOF-after-at-most-n+1-tokens")
	if !sawEOF {
		return
	}
	for i := 0; i < 2; i++ {
		tok, _, _ := sc.Scan()
		vfAssert(tok == EOF, "C05/EOF-is-sticky")
	}
	// fold now: every rune has been classified by the scan, so this adds no new cases
	l := c05Fold(rs)
	start := 0
	for _, r := range recs {
		vfAssert(r.n >= 0, "C05/pushback-nonnegative")
		vfAssert(r.n <= 3, "C05/pushback-within-ring")
		// logical characters handed to the scanner and not pushed back
		end := l.consumed(r.rawEnd) + r.eofs - r.n
		// end-of-input reports are not characters: a token that swallowed one ends at the end of the text
		if end > len(l.ch) {
			end = len(l.ch)
		}
		vfAssert(end >= start, "C05/extent-does-not-go-backwards")
		want := l.posOf(start)
		if r.tok == EOF {
			vfAssert(start >= len(l.ch), "C05/EOF-only-at-end-of-text")
			vfAssert(vfAnd(r.pos.Line == want.Line, r.pos.Char == want.Char), "C05/position-of-EOF-token-is-end-of-text")
			continue
		}
		vfAssert(end > start, "C05/token-consumes-at-least-one-character")
		if r.tok == STRING || r.tok == BADSTRING {
			vfAssert(vfAnd(r.pos.Line == want.Line, r.pos.Char == want.Char), "C05/position-of-string-token-is-its-first-character")
		} else if r.tok == BADESCAPE {
			// reported at the offending escape, not at the token start: not constrained here
		} else {
			vfAssert(vfAnd(r.pos.Line == want.Line, r.pos.Char == want.Char), "C05/position-is-first-character")
		}
		// content: tokens whose literal is their spelling
		if end <= len(l.ch) && end > start {
			switch r.tok {
			case WS, INTEGER, DURATIONVAL:
				vfAssert(r.lit == string(l.ch[start:end]), "C05/literal-is-the-extent")
			case ILLEGAL:
				if r.lit != "" {
					vfAssert(r.lit == string(l.ch[start:end]), "C05/literal-is-the-extent")
				}
			case ADD, SUB, MUL, DIV, MOD, BITWISE_AND, BITWISE_OR, BITWISE_XOR, EQ, NEQ, EQREGEX, NEQREGEX, LT, LTE, GT, GTE,
				LPAREN, RPAREN, COMMA, COLON, DOUBLECOLON, SEMICOLON, DOT:
				// an operator or punctuation token consumes exactly its spelling (no swallowed look-ahead)
				vfAssert(end-start == len(tokens[r.tok]), "C05/operator-token-consumes-exactly-its-spelling")
			case IDENT:
				quoted := false
				for _, c := range l.ch[start:end] {
					if c == '"' {
						quoted = true
					}
				}
				if !quoted {
					vfAssert(r.lit == string(l.ch[start:end]), "C05/literal-is-the-extent")
				}
			}
		}
		start = end
	}
	vfReach("C05_any/ok")
}

func c05Rune() rune {
	r := vfRune()
	vfAssume(r > 0)
	vfAssume(r <= 0x10FFFF)
	vfAssume(vfOr(r < 0xD800, r > 0xDFFF))
	return r
}

// every text of up to N arbitrary characters (any scalar value except NUL)
func vfH_C05_any(tier int) {
	N := 3
	if tier > 0 {
		N = 4
	}
	n := vfChoice(N + 1)
	rs := make([]rune, n)
	for i := range rs {
		rs[i] = c05Rune()
	}
	c05Tokens(rs)
}
