package influxql

import (
	"math"
	"regexp"
	"time"
)

// Statement skeletons with holes. A generator function makes shape choices
// (vfChoice), writes the statement text into a vfGen and builds the AST that
// text denotes from the same choices - never by running the code under test.
//
// Symbolic everywhere: the case of every keyword letter, every whitespace gap
// (space / tab / newline), one letter of every simple name, one digit of every
// simple number. One hole per path is the "focus" hole and takes all of its
// forms (longer bare names, quoted names with escapes, many-digit integers,
// multi-component durations, strings with escapes).

type vfGen struct {
	b       []byte
	tier    int
	sub     int // budget for one nested deviation inside a deviating variant
	nest    int
	budget  int  // how many more non-default variants this path may take
	plainWS bool // gaps are single spaces (used by harnesses that vary gaps themselves)
	gaps    []int // byte offsets of inter-token gaps (offset of the gap's first byte)
	emptyName bool // an empty quoted identifier "" was written somewhere
	noEquals  bool // quoted names never contain '='
	plainKW bool // keywords in upper case
}

func (g *vfGen) text() string { return string(g.b) }

func (g *vfGen) raw(s string) { g.b = append(g.b, s...) }

// sp writes one whitespace gap.
func (g *vfGen) sp() {
	g.gaps = append(g.gaps, len(g.b))
	if g.plainWS {
		g.b = append(g.b, ' ')
		return
	}
	// space or tab by default (no control flow in the lexer depends on which);
	// a newline moves the position bookkeeping onto another path, so it is a variant
	if g.pick(2) == 1 {
		g.b = append(g.b, '\n')
		return
	}
	g.b = append(g.b, vfIteByte(vfBool(), ' ', '\t'))
}

// kw writes a keyword, each letter in symbolic case.
func (g *vfGen) kw(s string) {
	for i := 0; i < len(s); i++ {
		c := s[i]
		if g.plainKW || c < 'A' || c > 'Z' {
			g.b = append(g.b, c)
			continue
		}
		g.b = append(g.b, vfIteByte(vfBool(), c, c+32))
	}
}

// kws writes keywords separated by gaps, with a leading gap.
func (g *vfGen) kws(words ...string) {
	for _, w := range words {
		g.sp()
		g.kw(w)
	}
}

// pick chooses among n variants of a hole or construct; variant 0 is the
// plain default. Every path may leave the default at most `budget` times
// (one-at-a-time coverage for budget 1, pairwise for 2), so the number of
// shapes grows with the sum, not the product, of the variant counts.
func (g *vfGen) pick(n int) int {
	if n <= 1 {
		return 0
	}
	if g.budget <= 0 {
		// inside a variant that was itself a deviation (g.nest > 0) one further, nested deviation is
		// allowed when the harness asked for it (sub): `*::field`, `-f(x)`, `count()`, `1.5` as an operand
		if g.nest > 0 && g.sub > 0 {
			k := vfChoice(n)
			if k != 0 {
				g.sub--
			}
			return k
		}
		return 0
	}
	k := vfChoice(n)
	if k != 0 {
		g.budget--
	}
	return k
}

func vfLower() byte {
	if vfConcreteHoles {
		return 'a'
	}
	c := vfByte()
	vfAssume(c >= 'a')
	vfAssume(c <= 'z')
	return c
}

func vfIdentChar(first bool) byte {
	c := vfByte()
	if first {
		vfAssume(isIdentFirstChar(rune(c)))
	} else {
		vfAssume(isIdentChar(rune(c)))
	}
	return c
}

// plain character of a quoted name or string: anything expressible except the
// characters that need an escape (those are separate forms).
func vfPlainChar(quote byte) byte {
	c := vfByte()
	vfAssume(c < 0x80)
	vfAssume(c != 0)
	vfAssume(c != '\r')
	vfAssume(c != '\n')
	vfAssume(c != '\\')
	vfAssume(c != quote)
	return c
}

// quoted writes a quoted name or string literal with n content elements and returns its value.
func (g *vfGen) quoted(quote byte, n int) string {
	var val []byte
	g.b = append(g.b, quote)
	for i := 0; i < n; i++ {
		switch vfChoice(5) {
		case 0:
			c := vfPlainChar(quote)
			if g.noEquals {
				vfAssume(c != '=')
			}
			g.b = append(g.b, c)
			val = append(val, c)
		case 1:
			g.raw(`\\`)
			val = append(val, '\\')
		case 2:
			g.raw(`\n`)
			val = append(val, '\n')
		case 3:
			g.b = append(g.b, '\\', quote)
			val = append(val, quote)
		case 4:
			g.raw("é")
			val = append(val, "é"...)
		}
	}
	g.b = append(g.b, quote)
	return string(val)
}

func (g *vfGen) maxName() int {
	if g.tier > 0 {
		return 3
	}
	return 2
}

// ident writes an identifier (no leading gap) and returns its value.
func (g *vfGen) ident() string {
	{
		switch g.pick(5) - 1 {
		case 0: // bare, several symbolic characters, not a keyword
			n := 2 + vfChoice(g.maxName()-1)
			bs := make([]byte, n)
			for i := range bs {
				bs[i] = vfIdentChar(i == 0)
			}
			s := string(bs)
			vfAssume(Lookup(s) == IDENT)
			g.b = append(g.b, bs...)
			return s
		case 1: // quoted, symbolic content with escapes
			n := vfChoice(g.maxName() + 1)
			if n == 0 {
				g.emptyName = true
			}
			return g.quoted('"', n)
		case 2: // a keyword used as a name must be quoted
			kws := []string{"select", "FROM", "Default", "time", "true"}
			k := kws[vfChoice(len(kws))]
			g.raw(`"` + k + `"`)
			return k
		case 3: // quoted name that would not need quotes
			c := vfLower()
			g.b = append(g.b, '"', c, '"')
			return string([]byte{c})
		}
	}
	c := vfLower()
	g.b = append(g.b, c)
	return string([]byte{c})
}

// str writes a string literal and returns its value.
func (g *vfGen) str() string {
	if g.pick(2) == 1 {
		return g.quoted('\'', vfChoice(g.maxName()+1))
	}
	c := vfPlainChar('\'')
	g.b = append(g.b, '\'', c, '\'')
	return string([]byte{c})
}

// digits writes m symbolic digits and returns their value with an overflow flag (uint64).
func (g *vfGen) digits(m int, firstNonZero bool) (uint64, bool) {
	n := uint64(0)
	ovf := false
	for i := 0; i < m; i++ {
		d := vfDigit()
		if i == 0 && firstNonZero {
			vfAssume(d != '0')
		}
		g.b = append(g.b, d)
		m10 := n * 10
		n2 := m10 + uint64(d-'0')
		if i >= 19 { // only a 20th digit can overflow 64 bits
			ovf = vfOr(ovf, n > math.MaxUint64/10)
			ovf = vfOr(ovf, n2 < m10)
		}
		n = n2
	}
	return n, ovf
}

// integer writes a non-negative integer literal that fits into max; returns its value.
func (g *vfGen) integer(min, max uint64) uint64 {
	ms := []int{1, 2, 10, 19}
	m := ms[g.pick(len(ms))]
	n, ovf := g.digits(m, false)
	vfAssume(!ovf)
	vfAssume(n >= min)
	vfAssume(n <= max)
	return n
}

type vfDurUnit struct {
	sp   string
	mult int64
}

var vfDurUnits = []vfDurUnit{
	{"ns", 1}, {"u", 1000}, {"µ", 1000}, {"ms", 1000000}, {"s", 1000000000},
	{"m", 60 * 1000000000}, {"h", 3600 * 1000000000}, {"d", 24 * 3600 * 1000000000}, {"w", 7 * 24 * 3600 * 1000000000},
}

// duration writes a duration literal and returns its value.
func (g *vfGen) duration() time.Duration {
	switch g.pick(4) {
	case 1: // three symbolic digits and any unit
		n, _ := g.digits(3, false)
		u := vfDurUnits[vfChoice(len(vfDurUnits))]
		g.raw(u.sp)
		return time.Duration(int64(n) * u.mult)
	case 2: // two components
		a, _ := g.digits(1, false)
		g.raw("h")
		b, _ := g.digits(2, false)
		g.raw("m")
		return time.Duration(int64(a)*3600*1000000000 + int64(b)*60*1000000000)
	case 3: // leading zeros, sub-second unit
		g.raw("00")
		n, _ := g.digits(1, false)
		g.raw("ms")
		return time.Duration(int64(n) * 1000000)
	}
	n, _ := g.digits(1, false)
	g.raw("s")
	return time.Duration(int64(n) * 1000000000)
}

// ---- expressions

var vfRegexes = []string{"a.*", "^x$", `a\/b`, "(?i)q", "[0-9]+", `a\\\/b`, `a\\/b`}

func (g *vfGen) regex() *RegexLiteral {
	g.nest++ // a regex is (almost) always reached through a deviating variant: its body is a nested choice
	r := vfRegexes[g.pick(len(vfRegexes))]
	g.nest--
	g.raw("/" + r + "/")
	// the pattern between the slashes with \/ unescaped
	pat := ""
	for i := 0; i < len(r); i++ {
		if r[i] == '\\' && i+1 < len(r) && r[i+1] == '/' {
			continue
		}
		pat += string(r[i])
	}
	return &RegexLiteral{Val: regexp.MustCompile(pat)}
}

var vfTypeNames = []struct {
	sp string
	t  DataType
}{{"float", Float}, {"integer", Integer}, {"unsigned", Unsigned}, {"string", String}, {"boolean", Boolean}, {"field", AnyField}, {"tag", Tag}}

// varref writes a variable reference: name, optionally dotted, optionally typed.
func (g *vfGen) varref() *VarRef {
	name := g.ident()
	v := &VarRef{Val: name}
	{
		switch g.pick(4) - 1 {
		case 0: // dotted name
			g.raw(".")
			v.Val = name + "." + g.identSimple()
		case 1: // type cast
			t := vfTypeNames[vfChoice(len(vfTypeNames))]
			g.raw("::")
			g.kw(upperASCII(t.sp))
			v.Type = t.t
		case 2: // dotted and typed
			g.raw(".")
			v.Val = name + "." + g.identSimple()
			g.raw("::")
			g.kw("FLOAT")
			v.Type = Float
		}
	}
	return v
}

func (g *vfGen) identSimple() string {
	c := vfLower()
	g.b = append(g.b, c)
	return string([]byte{c})
}

func upperASCII(s string) string {
	b := []byte(s)
	for i, c := range b {
		if c >= 'a' && c <= 'z' {
			b[i] = c - 32
		}
	}
	return string(b)
}

var vfNumbers = []struct {
	sp string
	v  float64
}{{"1.5", 1.5}, {"0.0", 0}, {".25", 0.25}, {"10.", 10}, {"123456789.125", 123456789.125}}

// literal writes a literal of a chosen kind.
func (g *vfGen) literal() Expr {
	switch g.pick(6) {
	case 0:
		return &IntegerLiteral{Val: int64(g.integer(0, math.MaxInt64))}
	case 1:
		g.nest++
		n := vfNumbers[g.pick(len(vfNumbers))]
		g.nest--
		g.raw(n.sp)
		return &NumberLiteral{Val: n.v}
	case 2:
		return &StringLiteral{Val: g.str()}
	case 3:
		g.nest++
		b := g.pick(2) == 0
		g.nest--
		if b {
			g.kw("TRUE")
		} else {
			g.kw("FALSE")
		}
		return &BooleanLiteral{Val: b}
	case 4:
		return &DurationLiteral{Val: g.duration()}
	default:
		// integer beyond int64: unsigned literal
		g.raw("9223372036854775808")
		return &UnsignedLiteral{Val: 9223372036854775808}
	}
}

var vfArithOps = []struct {
	sp string
	t  Token
}{{"+", ADD}, {"-", SUB}, {"*", MUL}, {"/", DIV}, {"%", MOD}, {"&", BITWISE_AND}, {"|", BITWISE_OR}, {"^", BITWISE_XOR}}

var vfCondOps = []struct {
	sp string
	t  Token
}{{"=", EQ}, {"!=", NEQ}, {"<>", NEQ}, {"<", LT}, {"<=", LTE}, {">", GT}, {">=", GTE}}

// operand writes a non-binary expression.
func (g *vfGen) operand(depth int, inField bool) Expr {
	n := 4
	if depth > 0 {
		n = 7
	}
	k := g.pick(n)
	if k != 0 {
		g.nest++
		defer func() { g.nest-- }()
	}
	switch k {
	case 0:
		return g.varref()
	case 1:
		return g.literal()
	case 2: // call with 0..2 arguments
		name := g.identSimple()
		g.raw("(")
		c := &Call{Name: name}
		na := []int{1, 0, 2}[g.pick(3)]
		for i := 0; i < na; i++ {
			if i > 0 {
				g.raw(",")
				g.sp()
			}
			if depth > 0 {
				c.Args = append(c.Args, g.expr(depth-1, inField))
			} else {
				c.Args = append(c.Args, g.varref())
			}
		}
		g.raw(")")
		return c
	case 3: // negated name / number / call / parenthesised expression
		g.raw("-")
		switch g.pick(4) {
		case 0:
			return &BinaryExpr{Op: MUL, LHS: &IntegerLiteral{Val: -1}, RHS: g.varref()}
		case 1:
			return &IntegerLiteral{Val: -int64(g.integer(0, math.MaxInt64))}
		case 2:
			name := g.identSimple()
			g.raw("(")
			v := g.varref()
			g.raw(")")
			return &BinaryExpr{Op: MUL, LHS: &IntegerLiteral{Val: -1}, RHS: &Call{Name: name, Args: []Expr{v}}}
		default:
			g.raw("(")
			l := g.varref()
			g.sp()
			g.raw("+")
			g.sp()
			r := g.varref()
			g.raw(")")
			return &BinaryExpr{Op: MUL, LHS: &IntegerLiteral{Val: -1}, RHS: &ParenExpr{Expr: &BinaryExpr{Op: ADD, LHS: l, RHS: r}}}
		}
	case 4: // parenthesised
		g.raw("(")
		e := g.expr(depth-1, inField)
		g.raw(")")
		return &ParenExpr{Expr: e}
	case 5: // call with wildcard or regex argument
		name := g.identSimple()
		g.raw("(")
		c := &Call{Name: name}
		if g.pick(2) == 0 {
			g.raw("*")
			c.Args = []Expr{&Wildcard{}}
		} else {
			c.Args = []Expr{g.regex()}
		}
		g.raw(")")
		return c
	default: // distinct
		g.kw("DISTINCT")
		if g.pick(2) == 0 {
			g.sp()
			return &Distinct{Val: g.ident()}
		}
		g.raw("(")
		v := g.varref()
		g.raw(")")
		return &Call{Name: "distinct", Args: []Expr{v}}
	}
}

// expr writes an arithmetic expression (what a SELECT field may hold).
func (g *vfGen) expr(depth int, inField bool) Expr {
	if depth <= 0 {
		return g.operand(depth, inField)
	}
	switch g.pick(4) {
	case 0:
		return g.operand(depth, inField)
	case 3:
		// any operator with a negated right operand: -name, -f(name), -(name + name)
		l := g.varref()
		op := vfArithOps[vfChoice(len(vfArithOps))]
		g.sp()
		g.raw(op.sp)
		g.sp()
		g.raw("-")
		var r Expr
		switch vfChoice(3) {
		case 0:
			r = g.varref()
		case 1:
			name := g.identSimple()
			g.raw("(")
			r = &Call{Name: name, Args: []Expr{g.varref()}}
			g.raw(")")
		default:
			g.raw("(")
			a := g.varref()
			g.sp()
			g.raw("+")
			g.sp()
			b := g.varref()
			g.raw(")")
			r = &ParenExpr{Expr: &BinaryExpr{Op: ADD, LHS: a, RHS: b}}
		}
		return &BinaryExpr{Op: op.t, LHS: l, RHS: &BinaryExpr{Op: MUL, LHS: &IntegerLiteral{Val: -1}, RHS: r}}
	case 2:
		// three operands, two operators, no parentheses: the grouping is decided by the
		// five precedence levels (reference grouping shared with the C03 harness)
		var xs []Expr
		var ops []Token
		var lv []int
		for i := 0; i < 3; i++ {
			if i > 0 {
				op := vfArithOps[vfChoice(len(vfArithOps))]
				g.sp()
				g.raw(op.sp)
				g.sp()
				ops = append(ops, op.t)
				lv = append(lv, c03Level(op.t))
			}
			xs = append(xs, g.varref())
		}
		return c03Ref(xs, ops, lv)
	}
	l := g.operand(depth-1, inField)
	op := vfArithOps[g.pick(len(vfArithOps))]
	g.sp()
	g.raw(op.sp)
	g.sp()
	r := g.operand(depth-1, inField)
	return &BinaryExpr{Op: op.t, LHS: l, RHS: r}
}

// comparison writes `name OP literal` or `name =~ /re/`.
func (g *vfGen) comparison() Expr {
	l := g.varref()
	if g.pick(2) == 1 {
		g.sp()
		neg := g.pick(2) == 1
		if neg {
			g.raw("!~")
		} else {
			g.raw("=~")
		}
		g.sp()
		op := EQREGEX
		if neg {
			op = NEQREGEX
		}
		return &BinaryExpr{Op: op, LHS: l, RHS: g.regex()}
	}
	op := vfCondOps[g.pick(len(vfCondOps))]
	g.sp()
	g.raw(op.sp)
	g.sp()
	return &BinaryExpr{Op: op.t, LHS: l, RHS: g.literal()}
}

// condition writes a WHERE condition.
func (g *vfGen) condition(depth int) Expr {
	switch g.pick(1 + 2*depth) {
	case 0:
		return g.comparison()
	case 1: // a AND b / a OR b (AND binds tighter: keep both sides atomic)
		l := g.comparison()
		g.sp()
		and := g.pick(2) == 0
		if and {
			g.kw("AND")
		} else {
			g.kw("OR")
		}
		g.sp()
		r := g.comparison()
		op := OR
		if and {
			op = AND
		}
		return &BinaryExpr{Op: op, LHS: l, RHS: r}
	default: // parenthesised
		g.raw("(")
		e := g.condition(depth - 1)
		g.raw(")")
		return &ParenExpr{Expr: e}
	}
}

// ---- clauses shared by several statements

// source writes one measurement source: [[db].[rp].]name or a regex form.
func (g *vfGen) measurement() *Measurement {
	m := &Measurement{}
	switch g.pick(6) {
	case 0:
		m.Name = g.ident()
	case 1:
		m.RetentionPolicy = g.ident()
		g.raw(".")
		m.Name = g.ident()
	case 2:
		m.Database = g.ident()
		g.raw(".")
		m.RetentionPolicy = g.ident()
		g.raw(".")
		m.Name = g.ident()
	case 3:
		m.Database = g.ident()
		g.raw("..")
		m.Name = g.ident()
	case 4:
		m.Regex = g.regex()
	default:
		m.Database = g.ident()
		g.raw(".")
		m.RetentionPolicy = g.ident()
		g.raw(".")
		m.Regex = g.regex()
	}
	return m
}

func (g *vfGen) simpleMeasurement() *Measurement {
	return &Measurement{Name: g.ident()}
}

// sources writes `FROM src[, src]` (keyword included, leading gap included).
func (g *vfGen) sources(rich bool) Sources {
	g.kws("FROM")
	g.sp()
	var out Sources
	n := 1
	if rich {
		n = 1 + g.pick(2)
	}
	for i := 0; i < n; i++ {
		if i > 0 {
			g.raw(",")
			g.sp()
		}
		if rich {
			out = append(out, g.measurement())
		} else {
			out = append(out, g.simpleMeasurement())
		}
	}
	return out
}

func (g *vfGen) where() Expr {
	g.kws("WHERE")
	g.sp()
	return g.condition(1)
}

// dimensions writes GROUP BY with 1..2 dimensions.
func (g *vfGen) dimensions() Dimensions {
	g.kws("GROUP", "BY")
	g.sp()
	var out Dimensions
	n := 1 + g.pick(2)
	for i := 0; i < n; i++ {
		if i > 0 {
			g.raw(",")
			g.sp()
		}
		switch g.pick(4) {
		case 0:
			out = append(out, &Dimension{Expr: g.varref()})
		case 1:
			g.raw("time(")
			d := g.duration()
			g.raw(")")
			out = append(out, &Dimension{Expr: &Call{Name: "time", Args: []Expr{&DurationLiteral{Val: d}}}})
		case 2:
			g.raw("*")
			out = append(out, &Dimension{Expr: &Wildcard{}})
		default:
			out = append(out, &Dimension{Expr: g.regex()})
		}
	}
	return out
}

func (g *vfGen) orderBy() SortFields {
	g.kws("ORDER", "BY")
	g.sp()
	switch g.pick(4) {
	case 0:
		g.kw("ASC")
		return SortFields{{Ascending: true}}
	case 1:
		g.kw("DESC")
		return SortFields{{Ascending: false}}
	case 2:
		g.raw("time")
		return SortFields{{Name: "time", Ascending: true}}
	default:
		g.raw("time")
		g.sp()
		g.kw("DESC")
		return SortFields{{Name: "time", Ascending: false}}
	}
}

func (g *vfGen) kwInt(word string) int {
	g.kws(word)
	g.sp()
	return int(g.integer(0, math.MaxInt64))
}

func (g *vfGen) onDB() string {
	g.kws("ON")
	g.sp()
	return g.ident()
}
