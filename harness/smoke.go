package influxql

func vfH_smoke_parse(tier int) {
	qs := []string{
		`SELECT mean(value) FROM cpu WHERE host = 'a' AND time > now() - 1h GROUP BY time(10m), host fill(none) ORDER BY time DESC LIMIT 10 OFFSET 2 SLIMIT 3 SOFFSET 4 tz('Europe/London')`,
		`CREATE RETENTION POLICY rp ON db DURATION 1h REPLICATION 1 SHARD DURATION 30m DEFAULT`,
		`SHOW TAG VALUES ON db FROM /c.*/ WITH KEY IN (a, b) WHERE x =~ /abc/ LIMIT 5`,
		`select "a b", -c*2.5 + 7 % 3 into "db"."rp".:MEASUREMENT from (select * from m1), db..m2 where a != 1 or not_b < 1.5e3`,
		`DROP SERIES FROM m WHERE time < '2000-01-01T00:00:00Z'`,
		`GRANT ALL PRIVILEGES ON db TO usr`,
		`CREATE USER u WITH PASSWORD 'pw' WITH ALL PRIVILEGES`,
		`KILL QUERY 12 ON "host:1"`,
		`EXPLAIN ANALYZE SELECT a FROM b`,
		`CREATE CONTINUOUS QUERY cq ON db RESAMPLE EVERY 10s FOR 2m BEGIN SELECT count(v) INTO t FROM m GROUP BY time(5m) END`,
		`SELECT a FROM m WHERE time >= 1000000000 AND time < 20s AND x = $p`,
		`SELECT`,
		`SELECT a FROM m; SHOW DATABASES;; DROP MEASUREMENT x`,
	}
	i := vfChoice(len(qs))
	q, err := ParseQuery(qs[i])
	if err != nil {
		vfNote("ERR " + err.Error())
		return
	}
	vfNote(q.String())
	vfReach("smoke_parse/ok")
}
