#!/bin/bash
# runs every registered check of one tier on /repo as it is; prints exit status and wall time per property
tier=${1:-quick}; shift
props=${@:-C01 C02 C03 C04 C05 C06 C07 C08 C09 C10 C11 C12 C13 C14 C15 C16 C17 C18 C19 C20}
cd /verif
for p in $props; do
  s=$(date +%s)
  ./check $p $tier > /tmp/runall_$p.$tier.log 2>&1
  e=$?
  echo "$p $tier exit=$e secs=$(( $(date +%s) - s )) $(grep -c '^VIOLATION' /tmp/runall_$p.$tier.log) violations, $(grep -c '^KNOWN-FINDING' /tmp/runall_$p.$tier.log) known"
done
