package influxql

import "time"

// C18 — SetTimeRange replaces earlier time bounds, over any sequence of windows.
//
// Induction instead of history enumeration. Base: from an initial condition C0
// one call lands in the class K(P, A, B) = "selects exactly A <= time < B and the
// non-time part P of C0". Step: from the result of a call, another call
// (C, D) lands in K(P, C, D) with the same P and a condition of the same size.
// Membership is observed through ConditionExpr and evaluation at a symbolic point.

// windows [start, end): ordinary, one nanosecond wide, sub-second edges, wide, empty
var c18Windows = [][2]int64{
	{946684800000000000, 946688400000000000},
	{946684800000000000, 946684800000000001},
	{946684800000000001, 946688400000000000},
	{-1000000000, 4102444800000000000},
	{0, 0},
}

func c18Size(e Expr) int {
	switch e := e.(type) {
	case *BinaryExpr:
		return 1 + c18Size(e.LHS) + c18Size(e.RHS)
	case *ParenExpr:
		return 1 + c18Size(e.Expr)
	case nil:
		return 0
	}
	return 1
}

type c18Point struct {
	host  byte
	value int64
}

// c18NonTime builds the non-time part P (may be nil) with its truth at the point.
func c18NonTime(pt c18Point) (Expr, bool) {
	// references are written plain or with a type qualifier (host::tag, value::field / ::integer)
	qual := vfChoice(3)
	hostEq := func() (Expr, bool) {
		c := vfLower()
		ref := &VarRef{Val: "host"}
		if qual == 1 {
			ref.Type = Tag
		}
		return &BinaryExpr{Op: EQ, LHS: ref, RHS: &StringLiteral{Val: string([]byte{c})}}, pt.host == c
	}
	valGt := func() (Expr, bool) {
		d := vfDigit()
		n := int64(d - '0')
		ref := &VarRef{Val: "value"}
		switch qual {
		case 1:
			ref.Type = AnyField
		case 2:
			ref.Type = Integer
		}
		return &BinaryExpr{Op: GT, LHS: ref, RHS: &IntegerLiteral{Val: n}}, pt.value > n
	}
	switch vfChoice(4) {
	case 0:
		return nil, true
	case 1:
		return hostEq()
	case 2:
		a, ta := hostEq()
		b, tb := valGt()
		return &BinaryExpr{Op: AND, LHS: a, RHS: b}, vfAnd(ta, tb)
	default:
		a, ta := hostEq()
		b, tb := valGt()
		return &ParenExpr{Expr: &BinaryExpr{Op: OR, LHS: a, RHS: b}}, vfOr(ta, tb)
	}
}

// c18TimeAtom builds one earlier time bound. form: 0 time on the left (lower case), 1 time on the right, 2 upper-case TIME
func c18TimeAtom(form int, paren bool) Expr {
	op := c10CmpOp()
	var bound Expr
	if vfChoice(2) == 0 {
		d := vfDigit()
		bound = &IntegerLiteral{Val: int64(d - '0')}
	} else {
		bound = &BinaryExpr{Op: SUB, LHS: &Call{Name: "now"}, RHS: &DurationLiteral{Val: 5 * time.Minute}}
	}
	var atom Expr
	switch form {
	case 1:
		atom = &BinaryExpr{Op: op, LHS: bound, RHS: &VarRef{Val: "time"}}
	case 2:
		atom = &BinaryExpr{Op: op, LHS: &VarRef{Val: "TIME"}, RHS: bound}
	default:
		atom = &BinaryExpr{Op: op, LHS: &VarRef{Val: "time"}, RHS: bound}
	}
	if paren {
		return &ParenExpr{Expr: atom} // a bound alone in its own parentheses (the style query builders emit)
	}
	return atom
}

// c18Refs lists the non-time references of a condition as written (name and type qualifier), in order.
func c18Refs(e Expr, out []VarRef) []VarRef {
	switch e := e.(type) {
	case *BinaryExpr:
		out = c18Refs(e.LHS, out)
		return c18Refs(e.RHS, out)
	case *ParenExpr:
		return c18Refs(e.Expr, out)
	case *VarRef:
		if !isTimeRef(e) {
			out = append(out, *e)
		}
	}
	return out
}

func c18Observe(sel *SelectStatement, a, b int64, pt c18Point, truthP bool, tag string) {
	valuer := &NowValuer{Now: time.Unix(0, 1500000000000000000)}
	residual, tr, err := ConditionExpr(sel.Condition, valuer)
	vfAssert(err == nil, "C18/condition-can-be-split"+tag)
	if err != nil {
		return
	}
	vfAssert(vfAnd(tr.MinTimeNano() == a, tr.MaxTimeNano() == b-1), "C18/selects-exactly-the-last-window"+tag)
	rest := true
	if residual != nil {
		rest = EvalBool(residual, map[string]interface{}{"host": string([]byte{pt.host}), "value": pt.value})
	}
	vfAssert(rest == truthP, "C18/non-time-part-is-kept-unchanged"+tag)
}

func c18SameRefs(a, b []VarRef) bool {
	if len(a) != len(b) {
		return false
	}
	for i := range a {
		if a[i] != b[i] {
			return false
		}
	}
	return true
}

func vfH_C18_induction(tier int) {
	pt := c18Point{host: vfLower(), value: vfInt64()}
	p, truthP := c18NonTime(pt)
	// earlier time bounds: 0..2, in one of the written forms
	form := vfChoice(3)
	tag := ""
	switch form {
	case 1:
		tag = "[time-on-the-right]"
	case 2:
		tag = "[upper-case-TIME]"
	}
	nT := vfChoice(3)
	cond := p
	paren := nT > 0 && vfChoice(2) == 1
	for i := 0; i < nT; i++ {
		atom := c18TimeAtom(form, paren)
		if cond == nil {
			cond = atom
		} else if vfChoice(2) == 0 {
			cond = &BinaryExpr{Op: AND, LHS: cond, RHS: atom}
		} else {
			cond = &BinaryExpr{Op: AND, LHS: atom, RHS: &ParenExpr{Expr: cond}}
		}
	}
	if nT == 0 {
		tag = ""
	}
	refsP := c18Refs(p, nil)
	sel := &SelectStatement{Fields: Fields{{Expr: &VarRef{Val: "v"}}}, Sources: Sources{&Measurement{Name: "m"}}, Condition: cond, IsRawQuery: true}
	vfNativeNote(func() string { return sel.String() })
	w1 := c18Windows[vfChoice(len(c18Windows))]
	a, b := w1[0], w1[1]
	// base
	err := sel.SetTimeRange(time.Unix(0, a), time.Unix(0, b))
	vfAssert(err == nil, "C18/base/SetTimeRange-succeeds"+tag)
	if err != nil {
		return
	}
	c18Observe(sel, a, b, pt, truthP, "/base"+tag)
	vfAssert(c18SameRefs(c18Refs(sel.Condition, nil), refsP), "C18/base/non-time-references-are-kept-as-written"+tag)
	size1 := c18Size(sel.Condition)
	// step: from a member of K(P, a, b) to K(P, c, d)
	w2 := c18Windows[[]int{3, 1, 0}[vfChoice(3)]]
	c, d := w2[0], w2[1]
	err = sel.SetTimeRange(time.Unix(0, c), time.Unix(0, d))
	vfAssert(err == nil, "C18/step/SetTimeRange-succeeds"+tag)
	if err != nil {
		return
	}
	c18Observe(sel, c, d, pt, truthP, "/step"+tag)
	vfAssert(c18SameRefs(c18Refs(sel.Condition, nil), refsP), "C18/step/non-time-references-are-kept-as-written"+tag)
	vfAssert(c18Size(sel.Condition) == size1, "C18/step/condition-does-not-grow"+tag)
	vfReach("C18_induction/ok")
}
