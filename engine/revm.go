package main

import "regexp"

func (in *Interp) reMatchSym(fr *frame, re *regexp.Regexp, s Str) Value {
	in.unsupported("regexp match on symbolic subject (VM not built yet)")
	return nil
}

func (in *Interp) reFindAllSym(fr *frame, re *regexp.Regexp, s Str, n int) Value {
	in.unsupported("regexp FindAll on symbolic subject (VM not built yet)")
	return nil
}
