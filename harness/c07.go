package influxql

import (
	"encoding/json"
	"regexp"
	"strings"
	"time"
)

// C07 — bound parameters are substituted as single tokens, never re-lexed.

// parameter value kinds
const (
	c07String = iota
	c07Int
	c07Float
	c07Bool
	c07DurationStr
	c07DurationInt
	c07Regex
	c07Ident
	c07StringObj
	c07IntObj
	c07FloatObj
	c07Unbound
	c07Unbindable
	c07BadObject
	c07NKinds
)

type c07Val struct {
	kind int
	raw  interface{} // what is handed to SetParams
	// the typed value the placeholder must carry
	s string
	i int64
	f float64
	b bool
	d time.Duration
}

// anyChar: any byte a Go string may hold except that symbolic bytes stay ASCII
func c07Char() byte {
	c := vfByte()
	vfAssume(c < 0x80)
	return c
}

func c07MakeVal(kind int, tier int) c07Val {
	v := c07Val{kind: kind}
	n := 2 + tier
	switch kind {
	case c07String, c07StringObj, c07Ident:
		k := vfChoice(n + 1)
		b := make([]byte, k)
		for i := range b {
			b[i] = c07Char()
		}
		v.s = string(b)
		switch kind {
		case c07String:
			v.raw = v.s
		case c07StringObj:
			v.raw = map[string]interface{}{"string": v.s}
		default:
			v.raw = map[string]interface{}{"ident": v.s}
		}
	case c07Int, c07IntObj:
		v.i = vfInt64()
		if kind == c07Int {
			v.raw = v.i
		} else {
			v.raw = map[string]interface{}{"integer": v.i}
		}
	case c07Float, c07FloatObj:
		fs := []float64{1.5, -2.25, 0, 1e21, 123456789.125}
		v.f = fs[vfChoice(len(fs))]
		if kind == c07Float {
			v.raw = v.f
		} else {
			v.raw = map[string]interface{}{"float": v.f}
		}
	case c07Bool:
		v.b = vfBool()
		v.raw = v.b
	case c07DurationStr:
		d1, d2 := vfDigit(), vfDigit()
		us := []struct {
			sp string
			m  int64
		}{{"s", 1000000000}, {"ms", 1000000}, {"h", 3600000000000}}
		u := us[vfChoice(len(us))]
		v.d = time.Duration((int64(d1-'0')*10 + int64(d2-'0')) * u.m)
		v.raw = map[string]interface{}{"duration": string([]byte{d1, d2}) + u.sp}
	case c07DurationInt:
		v.i = vfInt64()
		vfAssume(v.i > -9223372036854775807-1)
		v.d = time.Duration(v.i)
		v.raw = map[string]interface{}{"duration": v.i}
	case c07Regex:
		rs := []string{"a.*", "^x$", "a/b", "'; DROP", `a\/b`, `^a\\/b$`, `\\`, "[/]", "/"}
		v.s = rs[vfChoice(len(rs))]
		v.raw = map[string]interface{}{"regex": v.s}
	case c07Unbindable:
		v.raw = []int{1}
	case c07BadObject:
		switch vfChoice(3) {
		case 0:
			v.raw = map[string]interface{}{"string": "a", "integer": int64(1)}
		case 1:
			v.raw = map[string]interface{}{"nosuchkind": "a"}
		default:
			v.raw = map[string]interface{}{"integer": "notanint"}
		}
	}
	return v
}

// leaf is the expression node a literal-position placeholder must become (nil: must be rejected)
func (v c07Val) leaf() Expr {
	switch v.kind {
	case c07String, c07StringObj:
		return &StringLiteral{Val: v.s}
	case c07Int, c07IntObj:
		return &IntegerLiteral{Val: v.i}
	case c07Float, c07FloatObj:
		return &NumberLiteral{Val: v.f}
	case c07Bool:
		return &BooleanLiteral{Val: v.b}
	case c07DurationStr, c07DurationInt:
		return &DurationLiteral{Val: v.d}
	case c07Regex:
		return &RegexLiteral{Val: regexp.MustCompile(v.s)}
	case c07Ident:
		return &VarRef{Val: v.s}
	}
	return nil
}

func c07Parse(text string, params map[string]interface{}) (Statement, error) {
	p := NewParser(strings.NewReader(text))
	p.SetParams(params)
	q, err := p.ParseQuery()
	if err != nil {
		return nil, err
	}
	if len(q.Statements) != 1 {
		return nil, ErrInvalidDuration // any error: structure changed
	}
	return q.Statements[0], nil
}

func c07Select(cond Expr) *SelectStatement {
	return &SelectStatement{Fields: Fields{{Expr: &VarRef{Val: "a"}}}, Sources: Sources{&Measurement{Name: "m"}}, Condition: cond, IsRawQuery: true}
}

// templates: where the placeholder stands and what the statement must look like
func vfH_C07_templates(tier int) {
	kind := vfChoice(c07NKinds)
	v := c07MakeVal(kind, tier)
	params := map[string]interface{}{}
	if kind != c07Unbound {
		params["p"] = v.raw
	}
	tmpl := vfChoice(9)
	var text string
	var want Statement // nil: must be rejected
	leaf := v.leaf()
	switch tmpl {
	case 0: // literal on the right of a comparison
		text = "SELECT a FROM m WHERE k = $p AND z = 1"
		if leaf != nil {
			want = c07Select(&BinaryExpr{Op: AND,
				LHS: &BinaryExpr{Op: EQ, LHS: &VarRef{Val: "k"}, RHS: leaf},
				RHS: &BinaryExpr{Op: EQ, LHS: &VarRef{Val: "z"}, RHS: &IntegerLiteral{Val: 1}}})
		}
	case 1: // regex operand
		text = "SELECT a FROM m WHERE k =~ $p"
		if kind == c07Regex {
			want = c07Select(&BinaryExpr{Op: EQREGEX, LHS: &VarRef{Val: "k"}, RHS: leaf})
		}
	case 2: // the field itself
		text = "SELECT $p FROM m"
		if leaf != nil {
			s := c07Select(nil)
			s.Fields = Fields{{Expr: leaf}}
			want = s
		}
	case 3: // measurement name
		text = "SELECT a FROM $p"
		if kind == c07Ident {
			s := c07Select(nil)
			s.Sources = Sources{&Measurement{Name: v.s}}
			want = s
		} else if kind == c07Regex {
			s := c07Select(nil)
			s.Sources = Sources{&Measurement{Regex: &RegexLiteral{Val: regexp.MustCompile(v.s)}}}
			want = s
		}
	case 4: // count
		text = "SELECT a FROM m LIMIT $p"
		if (kind == c07Int || kind == c07IntObj) && true {
			s := c07Select(nil)
			s.Limit = int(v.i)
			want = s
		}
	case 5: // duration argument
		text = "SELECT a FROM m GROUP BY time($p)"
		if leaf != nil {
			s := c07Select(nil)
			s.Dimensions = Dimensions{{Expr: &Call{Name: "time", Args: []Expr{leaf}}}}
			want = s
		}
	case 6: // after a sign
		text = "SELECT a FROM m WHERE k > -$p"
		switch kind {
		case c07Int, c07IntObj:
			want = c07Select(&BinaryExpr{Op: GT, LHS: &VarRef{Val: "k"}, RHS: &IntegerLiteral{Val: -v.i}})
		case c07Float, c07FloatObj:
			want = c07Select(&BinaryExpr{Op: GT, LHS: &VarRef{Val: "k"}, RHS: &NumberLiteral{Val: -v.f}})
		case c07DurationStr, c07DurationInt:
			want = c07Select(&BinaryExpr{Op: GT, LHS: &VarRef{Val: "k"}, RHS: &DurationLiteral{Val: -v.d}})
		case c07Ident:
			want = c07Select(&BinaryExpr{Op: GT, LHS: &VarRef{Val: "k"}, RHS: &BinaryExpr{Op: MUL, LHS: &IntegerLiteral{Val: -1}, RHS: &VarRef{Val: v.s}}})
		}
	case 7: // password and user name
		text = "CREATE USER u WITH PASSWORD $p"
		if kind == c07String || kind == c07StringObj {
			want = &CreateUserStatement{Name: "u", Password: v.s}
		}
	default: // first call argument, then a second statement that must survive unchanged
		text = "SELECT f($p, 2) FROM m; DROP MEASUREMENT x"
	}
	vfNote(text)
	if tmpl == 8 {
		// two statements: structure is [SELECT ..., DROP MEASUREMENT x] or an error
		p := NewParser(strings.NewReader(text))
		p.SetParams(params)
		q, err := p.ParseQuery()
		if err != nil {
			vfAssert(leaf == nil, "C07/two-statements/bindable-value-is-accepted")
			vfReach("C07_templates/rejected")
			return
		}
		vfAssert(leaf != nil, "C07/two-statements/unbound-or-unbindable-parameter-is-rejected")
		vfAssert(len(q.Statements) == 2, "C07/two-statements/still-two-statements")
		if len(q.Statements) == 2 && leaf != nil {
			s := c07Select(nil)
			s.IsRawQuery = false
			s.Fields = Fields{{Expr: &Call{Name: "f", Args: []Expr{leaf, &IntegerLiteral{Val: 2}}}}}
			vfAssert(vfDeepEqual(q.Statements[0], Statement(s)), "C07/two-statements/first-statement-carries-exactly-the-value")
			vfAssert(vfDeepEqual(q.Statements[1], Statement(&DropMeasurementStatement{Name: "x"})), "C07/two-statements/second-statement-unchanged")
		}
		vfReach("C07_templates/ok")
		return
	}
	got, err := c07Parse(text, params)
	if err != nil {
		// failing is always allowed by the property except where the value is bindable and fits the position
		if want != nil {
			// a value that fits: LIMIT needs a non-negative count, everything else must be accepted
			if tmpl == 4 {
				vfAssert(v.i < 0, "C07/fitting-value-is-accepted")
			} else if tmpl == 6 && (kind == c07Int || kind == c07IntObj) {
				// -(-9223372036854775808) does not exist
				vfAssert(true, "C07/fitting-value-is-accepted")
			} else {
				vfAssert(false, "C07/fitting-value-is-accepted")
			}
		}
		vfReach("C07_templates/rejected")
		return
	}
	vfAssert(kind != c07Unbound, "C07/unbound-parameter-is-rejected")
	vfAssert(kind != c07Unbindable, "C07/unbindable-parameter-is-rejected")
	vfAssert(kind != c07BadObject, "C07/malformed-object-parameter-is-rejected")
	if want != nil {
		vfAssert(vfDeepEqual(got, want), "C07/ast-is-the-template-with-exactly-the-bound-value")
	} else {
		// accepted although this harness has no expected AST: the structure must still be the template's:
		// compare the statement kind and the number of sources / fields
		switch tmpl {
		case 0, 1, 6:
			s, ok := got.(*SelectStatement)
			vfAssert(ok, "C07/structure-is-the-templates")
			if ok {
				vfAssert(len(s.Fields) == 1 && len(s.Sources) == 1 && s.Condition != nil, "C07/structure-is-the-templates")
			}
		case 7:
			_, ok := got.(*CreateUserStatement)
			vfAssert(ok, "C07/structure-is-the-templates")
		default:
			s, ok := got.(*SelectStatement)
			vfAssert(ok, "C07/structure-is-the-templates")
			if ok {
				vfAssert(len(s.Fields) == 1 && len(s.Sources) == 1 && s.Condition == nil, "C07/structure-is-the-templates")
			}
		}
	}
	vfReach("C07_templates/ok")
}

// empty placeholder and placeholder names
func vfH_C07_empty(tier int) {
	texts := []string{"SELECT a FROM m WHERE k = $", "SELECT $ FROM m", "SELECT a FROM m WHERE k = $ AND z = 1", "SELECT a FROM m LIMIT $"}
	text := texts[vfChoice(len(texts))]
	_, err := c07Parse(text, map[string]interface{}{"": "x", "p": "y"})
	vfAssert(err != nil, "C07/empty-placeholder-is-rejected")
	vfReach("C07_empty/ok")
}

// a string value equals the literal written out (own escaper, not QuoteString)
func vfH_C07_inline(tier int) {
	n := vfChoice(3 + tier)
	b := make([]byte, n)
	var lit []byte
	lit = append(lit, '\'')
	for i := range b {
		c := c07Char()
		vfAssume(c != 0)
		vfAssume(c != '\r')
		b[i] = c
		// escape by case split in the harness (each case is a path)
		switch {
		case c == '\'':
			lit = append(lit, '\\', '\'')
		case c == '\\':
			lit = append(lit, '\\', '\\')
		case c == '\n':
			lit = append(lit, '\\', 'n')
		default:
			lit = append(lit, c)
		}
	}
	lit = append(lit, '\'')
	s := string(b)
	withParam, err1 := c07Parse("SELECT a FROM m WHERE k = $p", map[string]interface{}{"p": s})
	inlined, err2 := c07Parse("SELECT a FROM m WHERE k = "+string(lit), nil)
	vfAssert(err1 == nil, "C07/inline/string-parameter-is-accepted")
	vfAssert(err2 == nil, "C07/inline/written-out-literal-is-accepted")
	if err1 == nil && err2 == nil {
		vfAssert(vfDeepEqual(withParam, inlined), "C07/inline/parameter-equals-written-out-literal")
	}
	vfReach("C07_inline/ok")
}

// JSON numbers (encoding/json.Number, as a JSON decoder with UseNumber hands them over): the placeholder
// either is rejected or carries exactly the number written, i.e. the result equals the written-out literal
func vfH_C07_jsonnumber(tier int) {
	nums := []string{"0", "123", "-45", "1.5", "-0.25", "9223372036854775807", "9223372036854775808", "9223372036854775809",
		"18446744073709551615", "-9223372036854775808", "-9223372036854775809", "1e3", "abc", "", "12.", "1.0"}
	n := nums[vfChoice(len(nums))]
	var raw interface{} = json.Number(n)
	if vfChoice(3) == 2 {
		raw = map[string]interface{}{"integer": json.Number(n)}
	}
	tmpls := []string{"SELECT a FROM m WHERE k > $p", "SELECT a FROM m LIMIT $p", "SELECT f($p) FROM m"}
	ti := vfChoice(len(tmpls))
	text := tmpls[ti]
	vfNote(text + " p=" + n)
	got, err := c07Parse(text, map[string]interface{}{"p": raw})
	if err != nil {
		vfReach("C07_jsonnumber/rejected")
		return
	}
	inlined, err2 := c07Parse(strings.Replace(text, "$p", n, 1), nil)
	vfAssert(err2 == nil, "C07/jsonnumber/accepted-number-can-be-written-as-a-literal")
	if err2 == nil {
		vfAssert(vfDeepEqual(got, inlined), "C07/jsonnumber/parameter-equals-written-out-literal")
	}
	vfReach("C07_jsonnumber/ok")
}

// the set of bound values is the map given last: binding a parser a second time replaces the first set
func vfH_C07_rebind(tier int) {
	text := "SELECT a FROM m WHERE k = $x AND j = $y"
	x1, y1, x2 := vfInt64(), vfInt64(), vfInt64()
	second := map[string]interface{}{"x": x2}
	full := vfChoice(3)
	y2 := int64(0)
	switch full {
	case 1:
		y2 = vfInt64()
		second["y"] = y2
	case 2:
		second = nil
	}
	p := NewParser(strings.NewReader(text))
	p.SetParams(map[string]interface{}{"x": x1, "y": y1})
	p.SetParams(second)
	q, err := p.ParseQuery()
	if full != 1 {
		vfAssert(err != nil, "C07/rebind/placeholder-missing-from-the-map-in-force-is-an-error")
		vfReach("C07_rebind/rejected")
		return
	}
	vfAssert(err == nil, "C07/rebind/accepted")
	if err != nil {
		return
	}
	want := c07Select(&BinaryExpr{Op: AND,
		LHS: &BinaryExpr{Op: EQ, LHS: &VarRef{Val: "k"}, RHS: &IntegerLiteral{Val: x2}},
		RHS: &BinaryExpr{Op: EQ, LHS: &VarRef{Val: "j"}, RHS: &IntegerLiteral{Val: y2}}})
	vfAssert(len(q.Statements) == 1 && vfDeepEqual(q.Statements[0], Statement(want)), "C07/rebind/values-of-the-last-map-are-bound")
	vfReach("C07_rebind/ok")
}
