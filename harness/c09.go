package influxql

import "time"

// C09 — constant folding never changes the value of an expression.

const (
	c09Int = iota
	c09Uint
	c09Float
	c09Bool
)

type c09Env struct {
	red  map[string]interface{} // bindings given to Reduce
	rest map[string]interface{} // bindings left for the evaluator
	all  map[string]interface{}
	n    int
}

// leaf builds a literal or a variable of the given kind with a symbolic value.
// mode 0: literal; 1: variable bound for Reduce; 2: variable bound only for the evaluator.
func (e *c09Env) leaf(kind, mode int) Expr {
	var v interface{}
	var lit Expr
	switch kind {
	case c09Int:
		x := vfInt64()
		v, lit = x, &IntegerLiteral{Val: x}
	case c09Uint:
		x := vfUint64()
		v, lit = x, &UnsignedLiteral{Val: x}
	case c09Float:
		x := vfFloat64()
		v, lit = x, &NumberLiteral{Val: x}
	default:
		x := vfBool()
		v, lit = x, &BooleanLiteral{Val: x}
	}
	if mode == 0 {
		return lit
	}
	name := string(rune('p' + e.n))
	e.n++
	e.all[name] = v
	if mode == 1 {
		e.red[name] = v
	} else {
		e.rest[name] = v
	}
	return &VarRef{Val: name}
}

// operator classes of the property statement
func c09NumericArith(t Token) bool {
	return vfOr(vfOr(vfOr(t == ADD, t == SUB), vfOr(t == MUL, t == DIV)), t == MOD)
}
func c09Bitwise(t Token) bool {
	return vfOr(t == BITWISE_AND, vfOr(t == BITWISE_OR, t == BITWISE_XOR))
}
func c09Ordering(t Token) bool {
	return vfOr(vfOr(t == LT, t == LTE), vfOr(t == GT, t == GTE))
}
func c09Equality(t Token) bool { return vfOr(t == EQ, t == NEQ) }

// c09OpFor returns a symbolic operator that is well-typed for the operand kinds;
// the second result tells whether the result is boolean.
func c09OpFor(lk, rk int, wantBool bool) Token {
	t := Token(vfInt())
	lb, rb := lk == c09Bool, rk == c09Bool
	if lb && rb {
		// boolean operators on booleans (and equality on like kinds)
		vfAssume(vfOr(vfOr(t == AND, t == OR), c09Equality(t)))
		return t
	}
	if wantBool {
		vfAssume(vfOr(c09Ordering(t), c09Equality(t)))
		return t
	}
	if lk == c09Float || rk == c09Float {
		vfAssume(c09NumericArith(t))
		return t
	}
	vfAssume(vfOr(c09NumericArith(t), c09Bitwise(t)))
	return t
}

func c09Same(a, b interface{}) bool { return vfDeepEqual(a, b) }

func c09Check(e *c09Env, expr Expr, label string) {
	vfNativeNote(func() string {
		return expr.String() + " reduce-with=" + fmtMap(e.red) + " eval-with=" + fmtMap(e.rest)
	})
	direct := (&ValuerEval{Valuer: MapValuer(e.all), IntegerFloatDivision: true}).Eval(expr)
	reduced := Reduce(expr, MapValuer(e.red))
	after := (&ValuerEval{Valuer: MapValuer(e.rest), IntegerFloatDivision: true}).Eval(reduced)
	vfAssert(c09Same(direct, after), "C09/"+label+"/reduce-then-eval-equals-eval")
	again := Reduce(reduced, MapValuer(e.red))
	vfAssert(vfDeepEqual(again, reduced), "C09/"+label+"/reduce-is-idempotent")
}

func c09NewEnv() *c09Env {
	return &c09Env{red: map[string]interface{}{}, rest: map[string]interface{}{}, all: map[string]interface{}{}}
}

// one binary node: every operator x every pair of operand kinds x every binding split
func vfH_C09_binary(tier int) {
	e := c09NewEnv()
	lk, rk := vfChoice(4), vfChoice(4)
	if (lk == c09Bool) != (rk == c09Bool) {
		return // not well-typed
	}
	wantBool := vfChoice(2) == 1
	l := e.leaf(lk, vfChoice(3))
	r := e.leaf(rk, vfChoice(3))
	op := c09OpFor(lk, rk, wantBool)
	var expr Expr = &BinaryExpr{Op: op, LHS: l, RHS: r}
	if vfChoice(2) == 1 {
		expr = &ParenExpr{Expr: expr}
	}
	c09Check(e, expr, "binary")
	vfReach("C09_binary/ok")
}

// two binary nodes: (x op1 y) op2 z and x op1 (y op2 z), numeric inner, numeric or boolean outer,
// and boolean combinations of two comparisons
func vfH_C09_nested(tier int) {
	e := c09NewEnv()
	shape := vfChoice(3)
	kinds := []int{c09Int, c09Uint, c09Float}
	// orthogonal array L9: every pair of (position, level) combinations occurs (pairwise cover of 3 factors x 3 levels)
	l9 := [][3]int{{0, 0, 0}, {0, 1, 1}, {0, 2, 2}, {1, 0, 1}, {1, 1, 2}, {1, 2, 0}, {2, 0, 2}, {2, 1, 0}, {2, 2, 1}}
	kr := l9[vfChoice(9)]
	// binding splits: literal/reduce/eval mixes (three rows in the quick tier, the full array otherwise)
	mr := [][3]int{{0, 1, 2}, {1, 2, 0}, {2, 0, 1}}[vfChoice(3)]
	if tier > 0 {
		kr = [3]int{vfChoice(3), vfChoice(3), vfChoice(3)}
		mr = l9[vfChoice(9)]
	}
	k1, k2, k3 := kinds[kr[0]], kinds[kr[1]], kinds[kr[2]]
	m1, m2, m3 := mr[0], mr[1], mr[2]
	x, y, z := e.leaf(k1, m1), e.leaf(k2, m2), e.leaf(k3, m3)
	paren := vfChoice(2) == 1
	wrap := func(b Expr) Expr {
		if paren {
			return &ParenExpr{Expr: b}
		}
		return b
	}
	innerFloat := func(a, b int) int {
		if a == c09Float || b == c09Float {
			return c09Float
		}
		if a == c09Uint || b == c09Uint {
			return c09Uint
		}
		return c09Int
	}
	var expr Expr
	switch shape {
	case 0: // (x op1 y) op2 z
		op1 := c09OpFor(k1, k2, false)
		ik := innerFloat(k1, k2)
		op2 := c09OpFor(ik, k3, vfChoice(2) == 1)
		expr = &BinaryExpr{Op: op2, LHS: wrap(&BinaryExpr{Op: op1, LHS: x, RHS: y}), RHS: z}
	case 1: // x op1 (y op2 z)
		op2 := c09OpFor(k2, k3, false)
		ik := innerFloat(k2, k3)
		op1 := c09OpFor(k1, ik, vfChoice(2) == 1)
		expr = &BinaryExpr{Op: op1, LHS: x, RHS: wrap(&BinaryExpr{Op: op2, LHS: y, RHS: z})}
	default: // (x cmp y) AND/OR (y' cmp z) with a boolean variable or literal on one side
		c1 := c09OpFor(k1, k2, true)
		b := e.leaf(c09Bool, m3)
		t := Token(vfInt())
		vfAssume(vfOr(t == AND, t == OR))
		if vfChoice(2) == 0 {
			expr = &BinaryExpr{Op: t, LHS: wrap(&BinaryExpr{Op: c1, LHS: x, RHS: y}), RHS: b}
		} else {
			expr = &BinaryExpr{Op: t, LHS: b, RHS: wrap(&BinaryExpr{Op: c1, LHS: x, RHS: y})}
		}
	}
	c09Check(e, expr, "nested")
	vfReach("C09_nested/ok")
}

func fmtMap(m map[string]interface{}) string {
	out := "{"
	for _, k := range []string{"p", "q", "r", "s"} {
		if v, ok := m[k]; ok {
			out += k + ":" + fmtAny(v) + " "
		}
	}
	return out + "}"
}

// ---- time arithmetic: timestamp or now() plus or minus a duration, differences, comparisons

var c09Times = []struct {
	s  string
	ns int64
}{
	{"2000-01-01T00:00:00Z", 946684800000000000},
	{"2000-01-01T01:00:00+01:00", 946684800000000000}, // the same instant written in another zone
	{"2000-01-01", 946684800000000000},
	{"2000-01-01T00:00:00.000000001Z", 946684800000000001},
	{"1999-12-31T23:59:59.999999999Z", 946684799999999999},
	{"2000-01-01 00:00:01", 946684801000000000},
}

func c09CmpTruth(op Token, a, b int64) bool {
	r := vfAnd(op == EQ, a == b)
	r = vfOr(r, vfAnd(op == NEQ, a != b))
	r = vfOr(r, vfAnd(op == LT, a < b))
	r = vfOr(r, vfAnd(op == LTE, a <= b))
	r = vfOr(r, vfAnd(op == GT, a > b))
	r = vfOr(r, vfAnd(op == GTE, a >= b))
	return r
}

func vfH_C09_time(tier int) {
	now := vfInt64()
	vfAssume(now >= -(1 << 61))
	vfAssume(now <= 1<<61)
	d := vfInt64()
	vfAssume(d >= -(1 << 61))
	vfAssume(d <= 1<<61)
	valuer := &NowValuer{Now: time.Unix(0, now)}
	nowCall := &Call{Name: "now"}
	dl := &DurationLiteral{Val: time.Duration(d)}
	cmpOp := func() Token {
		t := Token(vfInt())
		vfAssume(vfOr(vfOr(t == EQ, t == NEQ), vfOr(vfOr(t == LT, t == LTE), vfOr(t == GT, t == GTE))))
		return t
	}
	var expr Expr
	check := func(red Expr) {}
	switch vfChoice(7) {
	case 0: // now() + d
		expr = &BinaryExpr{Op: ADD, LHS: nowCall, RHS: dl}
		check = func(red Expr) {
			lit, ok := red.(*TimeLiteral)
			vfAssert(ok, "C09/time/now-plus-duration-folds-to-an-instant")
			if ok {
				vfAssert(lit.Val.UnixNano() == now+d, "C09/time/now-plus-duration-is-the-exact-instant")
			}
		}
	case 1: // now() - d
		expr = &BinaryExpr{Op: SUB, LHS: nowCall, RHS: dl}
		check = func(red Expr) {
			lit, ok := red.(*TimeLiteral)
			vfAssert(ok, "C09/time/now-minus-duration-folds-to-an-instant")
			if ok {
				vfAssert(lit.Val.UnixNano() == now-d, "C09/time/now-minus-duration-is-the-exact-instant")
			}
		}
	case 2: // timestamp (string) +- duration
		t := c09Times[vfChoice(len(c09Times))]
		d2 := vfInt64()
		vfAssume(d2 >= -(1 << 60))
		vfAssume(d2 <= 1<<60)
		minus := vfChoice(2) == 1
		op, want := Token(ADD), t.ns+d2
		if minus {
			op, want = SUB, t.ns-d2
		}
		expr = &BinaryExpr{Op: op, LHS: &StringLiteral{Val: t.s}, RHS: &DurationLiteral{Val: time.Duration(d2)}}
		check = func(red Expr) {
			lit, ok := red.(*TimeLiteral)
			vfAssert(ok, "C09/time/timestamp-plus-or-minus-duration-folds-to-an-instant")
			if ok {
				vfAssert(lit.Val.UnixNano() == want, "C09/time/timestamp-plus-or-minus-duration-is-the-exact-instant")
			}
		}
	case 3: // difference of two timestamps
		a := c09Times[vfChoice(len(c09Times))]
		b := c09Times[vfChoice(len(c09Times))]
		expr = &BinaryExpr{Op: SUB, LHS: &StringLiteral{Val: a.s}, RHS: &StringLiteral{Val: b.s}}
		check = func(red Expr) {
			lit, ok := red.(*DurationLiteral)
			vfAssert(ok, "C09/time/timestamp-difference-folds-to-a-duration")
			if ok {
				vfAssert(int64(lit.Val) == a.ns-b.ns, "C09/time/timestamp-difference-is-exact")
			}
		}
	case 4: // comparison of two written timestamps (also the same instant in different zones)
		a := c09Times[vfChoice(len(c09Times))]
		b := c09Times[vfChoice(len(c09Times))]
		op := cmpOp()
		expr = &BinaryExpr{Op: op, LHS: &StringLiteral{Val: a.s}, RHS: &StringLiteral{Val: b.s}}
		check = func(red Expr) {
			lit, ok := red.(*BooleanLiteral)
			vfAssert(ok, "C09/time/timestamp-comparison-folds-to-a-truth-value")
			if ok {
				vfAssert(lit.Val == c09CmpTruth(op, a.ns, b.ns), "C09/time/timestamp-comparison-is-exact")
			}
		}
	case 5: // now() - d compared with a written timestamp
		b := c09Times[vfChoice(len(c09Times))]
		op := cmpOp()
		expr = &BinaryExpr{Op: op, LHS: &BinaryExpr{Op: SUB, LHS: nowCall, RHS: dl}, RHS: &StringLiteral{Val: b.s}}
		check = func(red Expr) {
			lit, ok := red.(*BooleanLiteral)
			vfAssert(ok, "C09/time/now-relative-comparison-folds-to-a-truth-value")
			if ok {
				vfAssert(lit.Val == c09CmpTruth(op, now-d, b.ns), "C09/time/now-relative-comparison-is-exact")
			}
		}
	default: // integer timestamp +- duration, then compared with now()
		i := vfInt64()
		vfAssume(i >= -(1 << 60))
		vfAssume(i <= 1<<60)
		op := cmpOp()
		expr = &BinaryExpr{Op: op, LHS: &ParenExpr{Expr: &BinaryExpr{Op: ADD, LHS: &IntegerLiteral{Val: i}, RHS: dl}}, RHS: nowCall}
		check = func(red Expr) {
			lit, ok := red.(*BooleanLiteral)
			vfAssert(ok, "C09/time/integer-timestamp-arithmetic-folds-to-a-truth-value")
			if ok {
				vfAssert(lit.Val == c09CmpTruth(op, i+d, now), "C09/time/integer-timestamp-arithmetic-is-exact")
			}
		}
	}
	red := Reduce(expr, valuer)
	check(red)
	again := Reduce(red, valuer)
	vfAssert(vfDeepEqual(again, red), "C09/time/reduce-is-idempotent")
	vfReach("C09_time/ok")
}

// time strings under a clock with a time zone: a timestamp written without an offset is read in the
// valuer's zone, on whichever side of the operator it stands; one written with an offset is not moved
func vfH_C09_zone(tier int) {
	const off = 8 * 3600 * int64(1000000000) // the zone is UTC-8: local midnight is 08:00 UTC
	now := vfInt64()
	vfAssume(now >= -(1 << 61))
	vfAssume(now <= 1<<61)
	d := vfInt64()
	vfAssume(d >= -(1 << 60))
	vfAssume(d <= 1<<60)
	valuer := &NowValuer{Now: time.Unix(0, now), Location: time.FixedZone("UTC-8", -8*3600)}
	written := []struct {
		s  string
		ns int64
	}{
		{"2000-01-01 00:00:00", 946684800000000000 + off},
		{"2000-01-01", 946684800000000000 + off},
		{"2000-01-01T00:00:00Z", 946684800000000000},
		{"2000-01-01T00:00:00-03:00", 946684800000000000 + 3*3600*1000000000},
	}
	w := written[vfChoice(len(written))]
	ts := &StringLiteral{Val: w.s}
	dl := &DurationLiteral{Val: time.Duration(d)}
	nowCall := &Call{Name: "now"}
	left := vfChoice(2) == 0 // the string on the left or on the right
	bin := func(op Token, a, b Expr) Expr {
		if left {
			return &BinaryExpr{Op: op, LHS: a, RHS: b}
		}
		return &BinaryExpr{Op: op, LHS: b, RHS: a}
	}
	switch vfChoice(3) {
	case 0: // timestamp + duration, either order
		red := Reduce(bin(ADD, ts, dl), valuer)
		lit, ok := red.(*TimeLiteral)
		vfAssert(ok, "C09/zone/timestamp-plus-duration-folds-to-an-instant")
		if ok {
			vfAssert(lit.Val.UnixNano() == w.ns+d, "C09/zone/timestamp-plus-duration-is-the-exact-instant")
		}
	case 1: // difference with now(), either order
		red := Reduce(bin(SUB, ts, nowCall), valuer)
		lit, ok := red.(*DurationLiteral)
		vfAssert(ok, "C09/zone/timestamp-difference-folds-to-a-duration")
		if ok {
			want := w.ns - now
			if !left {
				want = now - w.ns
			}
			vfAssert(int64(lit.Val) == want, "C09/zone/timestamp-difference-is-exact")
		}
	default: // comparison with now() - d, either order
		t := Token(vfInt())
		vfAssume(vfOr(vfOr(t == EQ, t == NEQ), vfOr(vfOr(t == LT, t == LTE), vfOr(t == GT, t == GTE))))
		shifted := &ParenExpr{Expr: &BinaryExpr{Op: SUB, LHS: nowCall, RHS: dl}}
		red := Reduce(bin(t, ts, shifted), valuer)
		lit, ok := red.(*BooleanLiteral)
		vfAssert(ok, "C09/zone/timestamp-comparison-folds-to-a-truth-value")
		if ok {
			a, b := w.ns, now-d
			if !left {
				a, b = b, a
			}
			vfAssert(lit.Val == c09CmpTruth(t, a, b), "C09/zone/timestamp-comparison-is-exact")
		}
	}
	vfReach("C09_zone/ok")
}
