package main

import (
	"fmt"
	"os"
	"time"
	"go/types"
	"sort"
	"strings"

	"golang.org/x/tools/go/ssa"
)

// RunConfig: per-check configuration.
type RunConfig struct {
	MaxSteps   int64
	Summaries  bool
	MapOrders  bool // explore map iteration orders (<=4 entries) for non-global maps
	TimeoutMs  int
	Harness    string
	Args       []int // concrete arguments (case id etc.) passed to harness
	Verbose    bool
	Solver     string
	CrossCheck string // second solver for unsat assertion verdicts ("" = off)
	CrossEvery int
	ForcedStart  []int
	SampleModels int // per worker: number of completed paths for which a full model is computed (samples / differential replay)
}

type Decision struct {
	Alt     int
	N       int
	Kind    string
}

// NondetRec is one nondet call on a path; the vector of these replays natively.
type NondetRec struct {
	Kind string // bool, u8, i32, i64, u64, f64, choice
	Var  *Term  // nil for choice
	Val  uint64 // for choice: chosen alternative (concrete)
	Str  string // for kind "str": a concrete string handed to the native replay
	Lo   int64
}

type Violation struct {
	Kind   string // "assert", "panic", "steplimit"
	Msg    string
	Vector []VecEntry
	Prefix []int
	Stack  string
}

type VecEntry struct {
	Kind string `json:"k"`
	Val  string `json:"v"` // decimal (unsigned bits for ints; float as bits)
}

type PathState struct {
	PC      []*Term
	Facts   map[uint32]bool
	Bounds  map[uint32][2]uint64 // unsigned interval known for a BV term
	IntMode bool
	Loose   bool // library calls on symbolic arguments may be over-approximated (totality checks only)
	Forced  []int
	Trace   []Decision
	Nondets []NondetRec
	Steps   int64
	Labels  []string
	// assertion results on this path
	Violations   []Violation
	Inconclusive []string
	AssertsOK    int
	AssertsTriv  int
	LastModel    Model
	Notes        []string
	NoteVals     []Str
	NoteInts     map[int][]*Term // index into NoteVals -> integers appended to that note
	Aux          []*Term
	ModelPCLen   int
}

type PathResult struct {
	Outcome  string // done, infeasible, panic, unsupported, steplimit
	Msg      string
	Stack    string
	State    *PathState
	Siblings [][]int
}

// addPC conjoins c to the path condition.
func (in *Interp) addPC(c *Term) {
	if c.IsConst() {
		return
	}
	p := in.path
	p.PC = append(p.PC, c)
	in.learn(c, true)
}

func (in *Interp) learn(c *Term, v bool) {
	p := in.path
	switch c.Op {
	case ONot:
		in.learn(c.A[0], !v)
		return
	case OAnd:
		if v {
			in.learn(c.A[0], true)
			in.learn(c.A[1], true)
		}
	case OOr:
		if !v {
			in.learn(c.A[0], false)
			in.learn(c.A[1], false)
		}
	}
	p.Facts[c.ID] = v
	in.learnBounds(c, v)
}

// learnBounds records unsigned intervals from comparisons against constants.
func (in *Interp) learnBounds(c *Term, v bool) {
	p := in.path
	upd := func(x *Term, lo, hi uint64) {
		if x.IsConst() {
			return
		}
		b, ok := p.Bounds[x.ID]
		if !ok {
			b = [2]uint64{0, mask(x.S.W)}
		}
		if lo > b[0] {
			b[0] = lo
		}
		if hi < b[1] {
			b[1] = hi
		}
		p.Bounds[x.ID] = b
	}
	a, b := c.A[0], c.A[1]
	switch c.Op {
	case OEq:
		if v && a.S.K == KBV {
			if b.IsConst() {
				upd(a, b.C, b.C)
			} else if a.IsConst() {
				upd(b, a.C, a.C)
			}
		}
	case OUle: // a <= b
		if v {
			if b.IsConst() {
				upd(a, 0, b.C)
			} else if a.IsConst() {
				upd(b, a.C, ^uint64(0))
			}
		} else { // a > b
			if b.IsConst() && b.C < ^uint64(0) {
				upd(a, b.C+1, ^uint64(0))
			} else if a.IsConst() && a.C > 0 {
				upd(b, 0, a.C-1)
			}
		}
	case OUlt: // a < b
		if v {
			if b.IsConst() && b.C > 0 {
				upd(a, 0, b.C-1)
			} else if a.IsConst() && a.C < ^uint64(0) {
				upd(b, a.C+1, ^uint64(0))
			}
		} else { // a >= b
			if b.IsConst() {
				upd(a, b.C, ^uint64(0))
			} else if a.IsConst() {
				upd(b, 0, a.C)
			}
		}
	}
}

func (in *Interp) boundsOf(x *Term) (uint64, uint64) {
	if x.IsConst() {
		return x.C, x.C
	}
	if b, ok := in.path.Bounds[x.ID]; ok {
		return b[0], b[1]
	}
	if x.Op == OZExt {
		return in.boundsOf(x.A[0])
	}
	if x.Op == OIte {
		l1, h1 := in.boundsOf(x.A[1])
		l2, h2 := in.boundsOf(x.A[2])
		if l2 < l1 {
			l1 = l2
		}
		if h2 > h1 {
			h1 = h2
		}
		return l1, h1
	}
	return 0, mask(x.S.W)
}

// knownByBounds decides comparisons using recorded intervals.
func (in *Interp) knownByBounds(c *Term) (bool, bool) {
	switch c.Op {
	case OEq:
		if c.A[0].S.K != KBV {
			return false, false
		}
		l1, h1 := in.boundsOf(c.A[0])
		l2, h2 := in.boundsOf(c.A[1])
		if h1 < l2 || h2 < l1 {
			return false, true
		}
		if l1 == h1 && l2 == h2 && l1 == l2 {
			return true, true
		}
	case OUle:
		l1, h1 := in.boundsOf(c.A[0])
		l2, h2 := in.boundsOf(c.A[1])
		if h1 <= l2 {
			return true, true
		}
		if l1 > h2 {
			return false, true
		}
	case OUlt:
		l1, h1 := in.boundsOf(c.A[0])
		l2, h2 := in.boundsOf(c.A[1])
		if h1 < l2 {
			return true, true
		}
		if l1 >= h2 {
			return false, true
		}
	}
	return false, false
}

func (in *Interp) known(c *Term) (bool, bool) {
	if c.IsConst() {
		return c.Bool(), true
	}
	if c.Op == ONot {
		v, ok := in.known(c.A[0])
		return !v, ok
	}
	v, ok := in.path.Facts[c.ID]
	if ok {
		return v, true
	}
	if v, ok := in.knownByBounds(c); ok {
		return v, true
	}
	switch c.Op {
	case OAnd:
		a, oka := in.known(c.A[0])
		b, okb := in.known(c.A[1])
		if (oka && !a) || (okb && !b) {
			return false, true
		}
		if oka && okb {
			return true, true
		}
	case OOr:
		a, oka := in.known(c.A[0])
		b, okb := in.known(c.A[1])
		if (oka && a) || (okb && b) {
			return true, true
		}
		if oka && okb {
			return false, true
		}
	}
	return false, false
}

// feasible asks the solver whether pc ∧ c is satisfiable.
func (in *Interp) feasible(c *Term) Result {
	if v, ok := in.known(c); ok {
		in.stats.FactHits++
		if v {
			return Sat
		}
		return Unsat
	}
	// try the last model first
	p := in.path
	if p.LastModel != nil {
		memo := map[uint32]*Term{}
		// the model was captured for PC[:ModelPCLen]; it must also satisfy what was added since
		valid := true
		for _, q := range p.PC[p.ModelPCLen:] {
			if r := in.ts.Eval(q, p.LastModel, memo); !(r.IsConst() && r.Bool() && in.modelCoversVars(q)) {
				valid = false
				break
			}
		}
		if !valid {
			p.LastModel = nil
		} else {
			p.ModelPCLen = len(p.PC)
			if r := in.ts.Eval(c, p.LastModel, memo); r.IsConst() && r.Bool() && in.modelCoversVars(c) {
				in.stats.ModelHits++
				return Sat
			}
		}
	}
	conj := append(in.slicePC(c), c)
	key := conjKey(conj)
	if r, ok := in.qcache[key]; ok {
		in.stats.CacheHits++
		return r
	}
	in.stats.BranchQ++
	r := in.check(conj)
	if r == Sat {
		in.endQuery()
	}
	if r != Unknown {
		in.qcache[key] = r
	}
	if r == Unknown {
		if d := os.Getenv("SYMGO_DUMP"); d != "" {
			in.dumpN++
			os.WriteFile(fmt.Sprintf("%s/unknown-feas-%d-%d.smt2", d, os.Getpid(), in.dumpN), []byte(in.cur.Script(conj)), 0o644)
		}
	}
	return r
}

func (in *Interp) modelCoversVars(c *Term) bool {
	// LastModel maps every var known at the time; vars created later are
	// missing. Missing vars evaluate as 0 which is a legitimate value only if
	// unconstrained by pc; be conservative: require that all vars of c are in
	// the model.
	ok := true
	seen := map[uint32]bool{}
	var walk func(t *Term)
	walk = func(t *Term) {
		if !ok || seen[t.ID] {
			return
		}
		seen[t.ID] = true
		if t.Op == OVar {
			if _, has := in.path.LastModel[t.ID]; !has {
				ok = false
			}
			return
		}
		for i := 0; i < int(t.N); i++ {
			walk(t.A[i])
		}
	}
	walk(c)
	return ok
}

func (in *Interp) captureModel() {
	p := in.path
	var vars []*Term
	for _, n := range p.Nondets {
		if n.Var != nil {
			vars = append(vars, n.Var)
		}
	}
	vars = append(vars, p.Aux...)
	p.ModelPCLen = len(p.PC)
	if in.fallbackSat {
		p.LastModel = in.pendingModel
		return
	}
	m, err := in.cur.Model(vars)
	if err == nil {
		p.LastModel = m
	} else {
		p.LastModel = nil
	}
}

// branch decides a boolean condition, forking when both sides are feasible.
func (in *Interp) branch(c *Term, site ssa.Instruction) bool {
	if c.IsConst() {
		return c.Bool()
	}
	if v, ok := in.known(c); ok {
		in.stats.FactHits++
		if traceFns && in.path.Steps > 20000 && in.path.Steps < 22000 {
			fmt.Fprintf(os.Stderr, "known %v: %s\n", v, c.String())
		}
		return v
	}
	alt := in.decideAmong([]*Term{c, in.ts.Not(c)}, "br")
	return alt == 0
}

// decideAmong picks one of several mutually exclusive, jointly exhaustive
// conditions, pushing the other feasible ones as sibling work items.
func (in *Interp) decideAmong(alts []*Term, kind string) int {
	p := in.path
	if p == nil {
		panic("decision outside a path (symbolic value during init?)")
	}
	// trivial cases
	nonFalse := -1
	cnt := 0
	for i, a := range alts {
		if v, ok := in.known(a); ok && !v {
			continue
		} else if ok && v {
			return i
		}
		cnt++
		nonFalse = i
	}
	if cnt == 1 {
		in.addPC(alts[nonFalse])
		return nonFalse
	}
	if cnt == 0 {
		panic(pathEnd{Kind: "infeasible", Msg: "no feasible alternative (" + kind + ")"})
	}
	idx := len(p.Trace)
	if idx < len(p.Forced) {
		alt := p.Forced[idx]
		p.Trace = append(p.Trace, Decision{Alt: alt, N: len(alts), Kind: kind})
		if traceFns {
			fmt.Fprintf(os.Stderr, "decision #%d forced kind=%s alt=%d cond=%s\n", idx, kind, alt, alts[alt].String())
		}
		in.addPC(alts[alt])
		return alt
	}
	var feas []int
	for i, a := range alts {
		if v, ok := in.known(a); ok && !v {
			continue
		}
		// if all earlier alternatives were infeasible and this is the last, it must be feasible
		if len(feas) == 0 && i == len(alts)-1 {
			feas = append(feas, i)
			break
		}
		var r Result
		if p.Loose && in.ts.HasMul(a) {
			// totality checks: arithmetic-heavy conditions (number and duration formatting)
			// are not decided; both sides are explored
			r = Unknown
			in.stats.LooseKept++
		} else {
			r = in.feasible(a)
		}
		if r == Sat {
			feas = append(feas, i)
		} else if r == Unknown {
			p.Notes = append(p.Notes, "unknown feasibility kept: "+kind)
			feas = append(feas, i)
		}
	}
	if len(feas) == 0 {
		panic(pathEnd{Kind: "infeasible", Msg: "no feasible alternative (" + kind + ")"})
	}
	alt := feas[0]
	for _, o := range feas[1:] {
		sib := make([]int, idx+1)
		for j := 0; j < idx; j++ {
			sib[j] = p.Trace[j].Alt
		}
		sib[idx] = o
		in.siblings = append(in.siblings, sib)
	}
	p.Trace = append(p.Trace, Decision{Alt: alt, N: len(alts), Kind: kind})
	if traceFns {
		fmt.Fprintf(os.Stderr, "decision #%d live kind=%s alt=%d feas=%v cond=%s\n", idx, kind, alt, feas, alts[alt].String())
	}
	in.addPC(alts[alt])
	return alt
}

// choice is a concrete n-way decision (shape choice); all alternatives are feasible.
func (in *Interp) choice(n int, kind string) int {
	p := in.path
	if n <= 0 {
		panic(pathEnd{Kind: "infeasible", Msg: "empty choice"})
	}
	if n == 1 {
		return 0
	}
	idx := len(p.Trace)
	alt := 0
	if idx < len(p.Forced) {
		alt = p.Forced[idx]
	} else {
		for o := 1; o < n; o++ {
			sib := make([]int, idx+1)
			for j := 0; j < idx; j++ {
				sib[j] = p.Trace[j].Alt
			}
			sib[idx] = o
			in.siblings = append(in.siblings, sib)
		}
	}
	p.Trace = append(p.Trace, Decision{Alt: alt, N: n, Kind: kind})
	return alt
}

// concretize turns a symbolic integer into a concrete one by forking over
// the values the solver finds feasible (used for make() sizes, slice bounds).
func (in *Interp) concretize(t *Term, what string) *Term {
	if t.IsConst() {
		return t
	}
	// enumerate models: value v1; else value v2; ... up to a cap
	ts := in.ts
	const capN = 64
	var excluded []*Term
	for k := 0; k < capN; k++ {
		p := in.path
		idx := len(p.Trace)
		if idx < len(p.Forced) {
			// replaying: Forced encodes the concrete value found earlier
			v := p.Forced[idx]
			p.Trace = append(p.Trace, Decision{Alt: v, N: -1, Kind: "conc"})
			c := ts.BV(int(t.S.W), uint64(int64(v)))
			in.addPC(ts.Eq(t, c))
			return c
		}
		conj := append(append([]*Term{}, p.PC...), excluded...)
		in.stats.BranchQ++
		r := in.check(conj)
		if r != Sat {
			if k == 0 {
				panic(pathEnd{Kind: "infeasible", Msg: "concretize: " + what})
			}
			break
		}
		in.captureModel()
		in.endQuery()
		val := ts.Eval(t, p.LastModel, map[uint32]*Term{})
		if !val.IsConst() {
			in.unsupported("concretize: cannot evaluate %s", what)
		}
		if k == 0 {
			// first value: take it on this path, siblings get others lazily:
			// push a sibling that excludes this value by forcing a different model.
			// Simple approach: enumerate all values now (bounded) and push them.
			vals := []*Term{val}
			ex := []*Term{ts.Not(ts.Eq(t, val))}
			for len(vals) < capN {
				conj2 := append(append([]*Term{}, p.PC...), ex...)
				in.stats.BranchQ++
				r2 := in.check(conj2)
				if r2 != Sat {
					if r2 == Unknown {
						p.Notes = append(p.Notes, "concretize: unknown while enumerating "+what)
					}
					break
				}
				var m Model
				{
					var vars []*Term
					for _, n := range p.Nondets {
						if n.Var != nil {
							vars = append(vars, n.Var)
						}
					}
					if in.fallbackSat {
						m = in.pendingModel
					} else {
						m, _ = in.cur.Model(vars)
					}
				}
				in.endQuery()
				v2 := ts.Eval(t, m, map[uint32]*Term{})
				if !v2.IsConst() {
					break
				}
				vals = append(vals, v2)
				ex = append(ex, ts.Not(ts.Eq(t, v2)))
			}
			if len(vals) >= capN {
				in.unsupported("concretize: more than %d values for %s", capN, what)
			}
			for _, o := range vals[1:] {
				sib := make([]int, idx+1)
				for j := 0; j < idx; j++ {
					sib[j] = p.Trace[j].Alt
				}
				sib[idx] = int(o.Int())
				in.siblings = append(in.siblings, sib)
			}
			p.Trace = append(p.Trace, Decision{Alt: int(val.Int()), N: -1, Kind: "conc"})
			in.addPC(ts.Eq(t, val))
			return val
		}
	}
	panic("unreachable")
}

// permuteMapOrder applies the map-iteration-order choice.
func (in *Interp) permuteMapOrder(it *iter) {
	if in.path == nil || in.cfg == nil || !in.cfg.MapOrders {
		return
	}
	n := len(it.order)
	if n < 2 || n > 4 || in.globalMaps[it.m] {
		return
	}
	// choose a permutation index
	nperm := 1
	for i := 2; i <= n; i++ {
		nperm *= i
	}
	k := in.choice(nperm, "maporder")
	// k-th permutation (Lehmer code)
	avail := append([]int{}, it.order...)
	out := make([]int, 0, n)
	f := nperm
	for i := n; i >= 1; i-- {
		f /= i
		j := k / f
		k %= f
		out = append(out, avail[j])
		avail = append(avail[:j], avail[j+1:]...)
	}
	it.order = out
}

// ---- pure-function summaries (if-conversion, no forking)

func (in *Interp) pureOK(fn *ssa.Function) bool {
	if v := in.pureCache[fn]; v != 0 {
		return v == 1
	}
	ok := in.pureCheck(fn, map[*ssa.Function]bool{})
	if ok {
		in.pureCache[fn] = 1
	} else {
		in.pureCache[fn] = 2
	}
	return ok
}

func scalarType(t types.Type) bool {
	b, ok := t.Underlying().(*types.Basic)
	if !ok {
		return false
	}
	return b.Info()&(types.IsBoolean|types.IsInteger) != 0
}

func (in *Interp) pureCheck(fn *ssa.Function, visiting map[*ssa.Function]bool) bool {
	if fn.Blocks == nil || visiting[fn] || len(fn.FreeVars) > 0 {
		return false
	}
	if _, isExt := in.ext[fn.String()]; isExt {
		return false
	}
	visiting[fn] = true
	defer delete(visiting, fn)
	for _, p := range fn.Params {
		if !scalarType(p.Type()) {
			return false
		}
	}
	res := fn.Signature.Results()
	if res.Len() != 1 || !scalarType(res.At(0).Type()) {
		return false
	}
	// acyclic: every successor has a larger index in a topological sense.
	// Simple check: DFS for back edges.
	color := map[*ssa.BasicBlock]int{}
	var cyc func(b *ssa.BasicBlock) bool
	cyc = func(b *ssa.BasicBlock) bool {
		color[b] = 1
		for _, s := range b.Succs {
			if color[s] == 1 {
				return true
			}
			if color[s] == 0 && cyc(s) {
				return true
			}
		}
		color[b] = 2
		return false
	}
	if cyc(fn.Blocks[0]) {
		return false
	}
	for _, b := range fn.Blocks {
		for _, ins := range b.Instrs {
			switch ins := ins.(type) {
			case *ssa.BinOp:
				if !scalarType(ins.X.Type()) {
					return false
				}
				switch ins.Op.String() {
				case "/", "%", "<<", ">>":
					return false // may panic / needs branch
				}
			case *ssa.UnOp:
				if ins.Op.String() == "*" || ins.Op.String() == "<-" {
					return false
				}
			case *ssa.If, *ssa.Jump, *ssa.Return, *ssa.Phi, *ssa.DebugRef:
			case *ssa.Convert:
				if !scalarType(ins.Type()) || !scalarType(ins.X.Type()) {
					return false
				}
			case *ssa.ChangeType:
				if !scalarType(ins.Type()) {
					return false
				}
			case *ssa.Call:
				callee, ok := ins.Call.Value.(*ssa.Function)
				if !ok || ins.Call.Method != nil {
					return false
				}
				if !in.pureCheck(callee, visiting) {
					return false
				}
			default:
				return false
			}
		}
	}
	return true
}

func (in *Interp) tryPure(fn *ssa.Function, args []Value) (Value, bool) {
	sym := false
	for _, a := range args {
		t, ok := a.(*Term)
		if !ok {
			return nil, false
		}
		if !t.IsConst() {
			sym = true
		}
	}
	if !sym || !in.pureOK(fn) {
		return nil, false
	}
	return in.evalPure(fn, args), true
}

func (in *Interp) evalPure(fn *ssa.Function, args []Value) *Term {
	fi := getFnInfo(fn)
	env := make([]Value, fi.n)
	for i, p := range fn.Params {
		env[fi.idx[p]] = args[i]
	}
	if in.fnsSeen != nil {
		in.fnsSeen[fn] = true
	}
	in.stats.Summaries++
	return in.evalPureBlock(fn, fi, env, fn.Blocks[0], nil)
}

func (in *Interp) evalPureBlock(fn *ssa.Function, fi *fnInfo, env []Value, b, prev *ssa.BasicBlock) *Term {
	ts := in.ts
	get := func(v ssa.Value) Value {
		if c, ok := v.(*ssa.Const); ok {
			return in.constValue(c)
		}
		return env[fi.idx[v]]
	}
	for _, ins := range b.Instrs {
		in.stats.Instrs++
		if in.path != nil {
			in.path.Steps++
		}
		switch ins := ins.(type) {
		case *ssa.DebugRef:
		case *ssa.Phi:
			for i, pred := range b.Preds {
				if pred == prev {
					env[fi.idx[ins]] = get(ins.Edges[i])
				}
			}
		case *ssa.BinOp:
			env[fi.idx[ins]] = in.binop(nil, ins.Op, ins.X.Type(), get(ins.X), get(ins.Y), ins.Y.Type())
		case *ssa.UnOp:
			x := get(ins.X).(*Term)
			switch ins.Op.String() {
			case "!":
				env[fi.idx[ins]] = ts.Not(x)
			case "-":
				env[fi.idx[ins]] = ts.Neg(x)
			case "^":
				env[fi.idx[ins]] = ts.BNot(x)
			}
		case *ssa.Convert:
			env[fi.idx[ins]] = in.conv(nil, ins.Type(), ins.X.Type(), get(ins.X))
		case *ssa.ChangeType:
			env[fi.idx[ins]] = get(ins.X)
		case *ssa.Call:
			callee := ins.Call.Value.(*ssa.Function)
			cargs := make([]Value, len(ins.Call.Args))
			for i, a := range ins.Call.Args {
				cargs[i] = get(a)
			}
			env[fi.idx[ins]] = in.evalPure(callee, cargs)
		case *ssa.Jump:
			return in.evalPureBlock(fn, fi, env, b.Succs[0], b)
		case *ssa.If:
			c := get(ins.Cond).(*Term)
			if c.IsConst() {
				if c.Bool() {
					return in.evalPureBlock(fn, fi, env, b.Succs[0], b)
				}
				return in.evalPureBlock(fn, fi, env, b.Succs[1], b)
			}
			e2 := make([]Value, len(env))
			copy(e2, env)
			t := in.evalPureBlock(fn, fi, env, b.Succs[0], b)
			f := in.evalPureBlock(fn, fi, e2, b.Succs[1], b)
			return ts.Ite(c, t, f)
		case *ssa.Return:
			return get(ins.Results[0]).(*Term)
		}
	}
	panic("evalPure: fell through")
}

// ---- running one path

func (in *Interp) RunPath(harness *ssa.Function, args []Value, forced []int) (res PathResult) {
	in.path = &PathState{Facts: map[uint32]bool{}, Bounds: map[uint32][2]uint64{}, Forced: forced}
	in.siblings = nil
	in.depth = 0
	in.reSteps = 0
	in.frozen, in.frozenMaps, in.frozenHits = nil, nil, nil
	res.State = in.path
	defer func() {
		res.Siblings = in.siblings
		r := recover()
		if r == nil {
			return
		}
		switch e := r.(type) {
		case pathEnd:
			res.Outcome = e.Kind
			res.Msg = e.Msg
		case *interpPanic:
			res.Outcome = "panic"
			res.Msg = e.Msg
			res.Stack = e.Stack
		default:
			panic(r)
		}
	}()
	in.callFunction(nil, harness, args, nil)
	res.Outcome = "done"
	return
}

func prefixKey(p []int) string {
	var sb strings.Builder
	for _, x := range p {
		fmt.Fprintf(&sb, "%d,", x)
	}
	return sb.String()
}

var _ = sort.Ints

// check routes a query to the INT-encoded solver when the path asked for it
// and every term is expressible there, else to the bit-vector solver.
func (in *Interp) check(conj []*Term) Result {
	in.cur = in.solver
	useInt := in.path != nil && in.path.IntMode
	if !useInt {
		// multiplication chains (decimal Horner sums, unit conversions) are linear
		// arithmetic in the INT encoding and expensive for the bit-vector solver
		for _, c := range conj {
			if in.ts.HasMul(c) {
				useInt = true
				break
			}
		}
	}
	if useInt {
		if in.isolver == nil {
			name, tmo := "z3-new", 2500
			if e := os.Getenv("SYMGO_INT_SOLVER"); e != "" {
				name, tmo = e, in.cfg.TimeoutMs
			}
			s, err := NewIntSolver(name, in.ts, tmo)
			if err == nil {
				in.isolver = s
			}
		}
		if in.isolver != nil {
			ok := true
			for _, c := range conj {
				if !in.isolver.intEncodable(c) {
					ok = false
					break
				}
			}
			if ok {
				in.cur = in.isolver
				in.stats.IntQ++
			}
		}
	}
	loose := in.path != nil && in.path.Loose
	if loose {
		in.cur.SetTimeout(400) // totality checks: an undecided branch is simply kept
	} else {
		in.cur.SetTimeout(in.cur.timeoutMs)
	}
	t0 := time.Now()
	r := in.cur.Check(conj)
	if d := os.Getenv("SYMGO_SLOW"); d != "" {
		if el := time.Since(t0); el > 30*time.Millisecond {
			in.dumpN++
			os.WriteFile(fmt.Sprintf("%s/slow-%d-%d-%dms.smt2", d, os.Getpid(), in.dumpN, el.Milliseconds()), []byte(in.cur.Script(conj)), 0o644)
		}
	}
	in.pendingModel = nil
	if r == Unknown && !loose {
		// portfolio fallback: the same text on the other solvers, one shot
		script := in.cur.Script(conj)
		var vars []*Term
		if in.path != nil {
			for _, n := range in.path.Nondets {
				if n.Var != nil {
					vars = append(vars, n.Var)
				}
			}
			vars = append(vars, in.path.Aux...)
		}
		// only variables that occur in the script can be asked for
		var present []*Term
		for _, v := range vars {
			if strings.Contains(script, "(declare-const "+v.Name+" ") {
				present = append(present, v)
			}
		}
		for _, alt := range []string{"cvc5", "z3-new", "z3"} {
			if alt == in.cur.name && in.cur.timeoutMs >= in.cfg.TimeoutMs {
				continue
			}
			in.stats.Fallbacks++
			r2, m := OneShotModel(alt, script, present, in.cfg.TimeoutMs)
			if r2 == Unsat {
				in.cur.NUnknown--
				in.cur.NUnsat++
				return Unsat
			}
			if r2 == Sat && m != nil {
				in.cur.NUnknown--
				in.cur.NSat++
				in.pendingModel = m
				in.fallbackSat = true
				return Sat
			}
		}
	}
	in.fallbackSat = false
	return r
}

// endQuery closes a Sat query (the incremental solver holds an open frame
// unless the verdict came from a one-shot fallback).
func (in *Interp) endQuery() {
	if in.fallbackSat {
		in.fallbackSat = false
		return
	}
	in.cur.EndQuery()
}

// slicePC returns the conjuncts of the path condition that can influence c:
// those sharing variables with it, transitively (constraint independence).
// The path condition as a whole is satisfiable (every assume and branch was
// checked), so pc ∧ c is satisfiable iff slice ∧ c is.
func (in *Interp) slicePC(c *Term) []*Term {
	p := in.path
	want := map[uint32]bool{}
	for _, v := range in.ts.VarsOf(c) {
		want[v] = true
	}
	if len(want) == 0 {
		return nil
	}
	used := make([]bool, len(p.PC))
	changed := true
	for changed {
		changed = false
		for i, q := range p.PC {
			if used[i] {
				continue
			}
			vs := in.ts.VarsOf(q)
			hit := false
			for _, v := range vs {
				if want[v] {
					hit = true
					break
				}
			}
			if hit {
				used[i] = true
				changed = true
				for _, v := range vs {
					want[v] = true
				}
			}
		}
	}
	var out []*Term
	for i, q := range p.PC {
		if used[i] {
			out = append(out, q)
		}
	}
	return out
}

func conjKey(conj []*Term) string {
	ids := make([]int, len(conj))
	for i, c := range conj {
		ids[i] = int(c.ID)
	}
	sort.Ints(ids)
	var sb strings.Builder
	for _, x := range ids {
		fmt.Fprintf(&sb, "%d,", x)
	}
	return sb.String()
}

// probeBoundary is the last resort after a solver verdict "unknown" on an
// assertion: starting from the last model of the path it varies one variable
// at a time over boundary values (powers of two and ten and their neighbours,
// extremes, small numbers) and evaluates the whole conjunction concretely. A
// hit is a genuine counterexample (it is replayed natively like any other);
// no hit leaves the obligation inconclusive - probing never turns unknown into pass.
func (in *Interp) probeBoundary(conj []*Term) Model {
	ts := in.ts
	base := Model{}
	for k, v := range in.path.LastModel {
		base[k] = v
	}
	holds := func(m Model) bool {
		memo := map[uint32]*Term{}
		for _, c := range conj {
			r := ts.Eval(c, m, memo)
			if !r.IsConst() || !r.Bool() {
				return false
			}
		}
		return true
	}
	if holds(base) {
		return base
	}
	varSet := map[uint32]*Term{}
	var collect func(t *Term, seen map[uint32]bool)
	collect = func(t *Term, seen map[uint32]bool) {
		if t.Op == OConst || seen[t.ID] {
			return
		}
		seen[t.ID] = true
		if t.Op == OVar {
			varSet[t.ID] = t
			return
		}
		for i := 0; i < int(t.N); i++ {
			collect(t.A[i], seen)
		}
	}
	seen := map[uint32]bool{}
	// only the variables of the negated assertion (last conjunct) are varied
	collect(conj[len(conj)-1], seen)
	ids := make([]uint32, 0, len(varSet))
	for id := range varSet {
		ids = append(ids, id)
	}
	sort.Slice(ids, func(i, j int) bool { return ids[i] < ids[j] })
	budget := 200000
	for _, id := range ids {
		v := varSet[id]
		if v.S.K != KBV {
			continue
		}
		w := int(v.S.W)
		mask := ^uint64(0)
		if w < 64 {
			mask = (uint64(1) << uint(w)) - 1
		}
		var cands []uint64
		if w <= 8 {
			for x := uint64(0); x <= mask; x++ {
				cands = append(cands, x)
			}
		} else {
			add := func(x uint64) {
				for _, d := range []uint64{0, 1, ^uint64(0)} {
					y := x + d
					cands = append(cands, y&mask, (-y)&mask)
				}
			}
			for k := 0; k < w; k++ {
				add(uint64(1) << uint(k))
			}
			p10 := uint64(1)
			for k := 0; k < 20; k++ {
				add(p10)
				p10 *= 10
			}
			add(0)
			add(base[id])
			cands = append(cands, mask, mask>>1, (mask>>1)+1)
		}
		old := base[id]
		for _, c := range cands {
			if budget--; budget < 0 {
				return nil
			}
			base[id] = c
			if holds(base) {
				return base
			}
		}
		base[id] = old
	}
	return nil
}
