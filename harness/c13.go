package influxql

import (
	"strings"
	"time"
)

// C13 — every operation on a parsed statement is total.
//
// Domain: statements the parser accepts, skewed towards what a later
// validation stage would reject: calls with zero or surplus arguments, zero or
// negative intervals, fractional divisors, wildcards and regexes in odd places.

type c13Gen struct {
	b      []byte
	budget int
}

func (g *c13Gen) raw(s string) { g.b = append(g.b, s...) }
func (g *c13Gen) pick(n int) int {
	if g.budget <= 0 || n <= 1 {
		return 0
	}
	k := vfChoice(n)
	if k != 0 {
		g.budget--
	}
	return k
}

// symbolic digit (0..9)
func (g *c13Gen) digit() { g.b = append(g.b, vfDigit()) }

var c13Funcs = []string{"top", "mean", "bottom", "count", "distinct", "percentile", "derivative", "time", "elapsed", "holt_winters", "sample", "mode", "first", "zzz"}

func (g *c13Gen) arg() {
	switch g.pick(9) {
	case 0:
		g.raw("v")
	case 1:
		g.digit()
	case 2:
		g.digit()
		g.raw("s")
	case 3:
		g.raw("2.5")
	case 4:
		g.raw("'s'")
	case 5:
		g.raw("*")
	case 6:
		g.raw("/re/")
	case 7:
		g.raw("max(v)")
	default:
		g.raw("-")
		g.digit()
		g.raw("m")
	}
}

func (g *c13Gen) call() {
	g.raw(c13Funcs[g.pick(len(c13Funcs))])
	g.raw("(")
	n := []int{1, 0, 2, 3}[g.pick(4)]
	for i := 0; i < n; i++ {
		if i > 0 {
			g.raw(", ")
		}
		g.arg()
	}
	g.raw(")")
}

func (g *c13Gen) field() {
	switch g.pick(6) {
	case 0:
		g.call()
	case 1:
		g.raw("v")
	case 2:
		g.raw("*")
	case 3:
		g.raw("/re/")
	case 4:
		g.raw("v + ")
		g.call()
	default:
		g.raw("DISTINCT v")
	}
	if g.pick(2) == 1 {
		g.raw(" AS a")
	}
}

func (g *c13Gen) groupBy() {
	switch g.pick(8) {
	case 0:
		return
	case 1:
		g.raw(" GROUP BY time()")
	case 2:
		g.raw(" GROUP BY time(")
		g.digit()
		g.raw("s)")
	case 3:
		g.raw(" GROUP BY time(")
		g.digit()
		g.raw("s, ")
		g.digit()
		g.raw("s)")
	case 4:
		g.raw(" GROUP BY time(")
		g.digit()
		g.raw("s, -")
		g.digit()
		g.raw("s), t")
	case 5:
		g.raw(" GROUP BY time(")
		g.digit()
		if vfChoice(2) == 0 {
			g.raw("s")
		}
		g.raw(", now())")
	case 6:
		g.raw(" GROUP BY t, *, /re/")
	default:
		g.raw(" GROUP BY time(1s, 2s, 3s)")
	}
}

func (g *c13Gen) where() {
	switch g.pick(10) {
	case 8:
		// the parser binds arithmetic to the regex operand: the right side of =~ is not a regex literal
		g.raw(" WHERE t =~ /re/ + ")
		g.digit()
		g.raw(" AND v !~ /re/ * 2")
	case 9:
		g.raw(" WHERE /re/ =~ t OR /a/ = /b/ OR t =~ /^x$/")
	case 0:
		return
	case 1:
		g.raw(" WHERE v > ")
		g.digit()
		g.raw("s / 0.5")
	case 2:
		g.raw(" WHERE v > ")
		g.digit()
		g.raw(" % ")
		g.digit()
	case 3:
		g.raw(" WHERE time > now() - ")
		g.digit()
		g.raw("h AND v =~ /re/")
	case 4:
		g.raw(" WHERE v > ")
		g.digit()
		g.raw("s / ")
		g.digit()
	case 5:
		g.raw(" WHERE time > '2000-01-01' AND time < 10s * 2.5 OR x")
	case 6:
		g.raw(" WHERE v = 's' + 't' AND t !~ /re/ AND time = '2000-01-01T00:00:00Z'")
	default:
		g.raw(" WHERE v / ")
		g.digit()
		g.raw(" > 1 AND ")
		g.digit()
		g.raw("s / ")
		g.digit()
		g.raw("s = 1")
	}
}

// a schema that reports "no tags" / "no fields" as nil maps
type c13NilMapper struct{}

func (c13NilMapper) FieldDimensions(m *Measurement) (map[string]DataType, map[string]struct{}, error) {
	if m.Name == "m" {
		return map[string]DataType{"v": Float}, nil, nil
	}
	return nil, nil, nil
}
func (c13NilMapper) MapType(m *Measurement, field string) DataType {
	if field == "v" {
		return Float
	}
	return Unknown
}

type c13Mapper struct{}

func (c13Mapper) FieldDimensions(m *Measurement) (map[string]DataType, map[string]struct{}, error) {
	return map[string]DataType{"v": Float, "i": Integer}, map[string]struct{}{"t": {}}, nil
}
func (c13Mapper) MapType(m *Measurement, field string) DataType {
	switch field {
	case "v":
		return Float
	case "i":
		return Integer
	case "t":
		return Tag
	}
	return Unknown
}

var c13Ops = []string{"String", "Clone", "WalkFunc", "RewriteRegexConditions", "RewriteDistinct", "RewriteTimeFields", "RewriteFields", "Reduce", "EvalCondition", "EvalType",
	"ConditionExpr", "GroupByInterval", "GroupByOffset", "Normalize", "ColumnNames", "FieldExprByName", "FieldNames", "ExprNames", "HasTimeExpr", "ContainsVarRef-IsSelector",
	"RequiredPrivileges", "SetTimeRange", "Measurements", "Reduce-then-GroupByInterval-GroupByOffset", "Reduce-then-String-ColumnNames-ConditionExpr", "RewriteFields-then-ColumnNames"}

func c13Apply(sel *SelectStatement, op int) {
	valuer := &NowValuer{Now: time.Unix(0, 1000000000)}
	switch op {
	case 0:
		_ = sel.String()
	case 1:
		sel.Clone()
	case 2:
		WalkFunc(sel, func(Node) {})
	case 3:
		sel.Clone().RewriteRegexConditions()
	case 4:
		sel.Clone().RewriteDistinct()
	case 5:
		sel.Clone().RewriteTimeFields()
	case 6:
		sel.RewriteFields(c13Mapper{})
		sel.RewriteFields(c13NilMapper{})
	case 7:
		sel.Reduce(valuer)
	case 8:
		EvalBool(sel.Condition, map[string]interface{}{"v": int64(1), "t": "x"})
	case 9:
		for _, f := range sel.Fields {
			EvalType(f.Expr, sel.Sources, c13Mapper{})
		}
	case 10:
		ConditionExpr(sel.Condition, valuer)
	case 11:
		sel.GroupByInterval()
	case 12:
		sel.GroupByOffset()
	case 13:
		sel.Dimensions.Normalize()
	case 14:
		sel.ColumnNames()
	case 15:
		sel.FieldExprByName("v")
		sel.FieldExprByName("a")
	case 16:
		sel.Fields.Names()
		sel.Fields.AliasNames()
	case 17:
		for _, f := range sel.Fields {
			ExprNames(f.Expr)
		}
		ExprNames(sel.Condition)
	case 18:
		HasTimeExpr(sel.Condition)
	case 19:
		ContainsVarRef(sel.Condition)
		for _, f := range sel.Fields {
			IsSelector(f.Expr)
		}
	case 20:
		sel.RequiredPrivileges()
	case 21:
		sel.Clone().SetTimeRange(time.Unix(0, 0), time.Unix(10, 0))
	case 22:
		sel.Sources.Measurements()
	case 23:
		// the reduced statement (now() folded to a time literal) is a statement like any other
		r := sel.Reduce(valuer)
		r.GroupByInterval()
		r.GroupByOffset()
	case 24:
		r := sel.Reduce(valuer)
		_ = r.String()
		r.ColumnNames()
		ConditionExpr(r.Condition, valuer)
	default:
		if s2, err := sel.RewriteFields(c13Mapper{}); err == nil {
			s2.ColumnNames()
		}
	}
}

func vfH_C13_select(tier int) {
	g := &c13Gen{budget: 1 + tier/2} // thorough: pairwise odd constructs x 26 operations do not fit (> 30 min); same shapes as quick
	g.raw("SELECT ")
	nf := 1 + g.pick(2)
	for i := 0; i < nf; i++ {
		if i > 0 {
			g.raw(", ")
		}
		g.field()
	}
	switch vfChoice(4) { // the source form combines freely with the one odd construct elsewhere
	case 0:
		g.raw(" FROM m")
	case 1:
		g.raw(" INTO t FROM db.rp.m, /re/")
	case 3:
		g.raw(" FROM m, (SELECT max(v) FROM m GROUP BY t)")
	default:
		g.raw(" FROM (SELECT ")
		g.field()
		g.raw(" FROM m)")
	}
	g.where()
	g.groupBy()
	if g.pick(2) == 1 {
		g.raw(" fill(")
		g.digit()
		g.raw(") ORDER BY time DESC LIMIT ")
		g.digit()
	}
	text := string(g.b)
	op := vfChoice(len(c13Ops))
	if op == 23 || op == 24 {
		// the reduced statement is printed and truncated by library code that is modelled on concrete values only:
		// the symbolic digits are enumerated here (all ten values of each)
		text = vfConcretize(text)
	}
	vfNote(text)
	stmt, err := ParseStatement(text)
	if err != nil {
		vfReach("C13_select/rejected-by-parser")
		return
	}
	sel := stmt.(*SelectStatement)
	panicked, msg := vfCatch(func() { c13Apply(sel, op) })
	if panicked {
		vfNativeNote(func() string { return "panic in " + c13Ops[op] + ": " + msg })
	}
	vfAssert(!panicked, "C13/"+c13Ops[op]+"-does-not-panic")
	vfReach("C13_select/ok")
}

// the other statement kinds: printing, walking, privileges, default database
func vfH_C13_others(tier int) {
	kind := 1 + vfChoice(len(vfStmtGens)-1)
	g := &vfGen{tier: tier, budget: 1}
	vfStmtGens[kind].gen(g)
	text := g.text()
	vfNote(text)
	stmt, err := ParseStatement(text)
	if err != nil {
		return
	}
	panicked, _ := vfCatch(func() {
		_ = stmt.String()
		WalkFunc(stmt, func(Node) {})
		stmt.RequiredPrivileges()
		if d, ok := stmt.(HasDefaultDatabase); ok {
			d.DefaultDatabase()
		}
		(&Query{Statements: Statements{stmt}}).String()
	})
	vfAssert(!panicked, "C13/"+vfStmtGens[kind].name+"-operations-do-not-panic")
	vfReach("C13_others/ok")
}

var _ = strings.ToLower
