package influxql

import (
	"time"
)

// C17 — independent parses and read-only use of a shared AST are safe under concurrency.
//
// Reduction, not schedule enumeration: an operation that performs no store into
// shared memory (package state, the shared AST) cannot race with any other such
// operation under any schedule, and its result is then a function of its
// arguments alone. The check is therefore non-interference per operation,
// decided by symbolic execution with a write monitor over all symbolic inputs.

var c17Ops = []string{"ParseQuery", "ParseExpr", "String", "QuoteIdent-QuoteString", "FormatDuration-ParseDuration", "Sanitize",
	"Clone", "WalkFunc", "EvalBool", "Reduce-expr", "Reduce-statement", "RewriteFields", "ColumnNames-Names", "RequiredPrivileges", "ConditionExpr", "CloneExpr", "Lookup-IdentNeedsQuotes"}

func vfH_C17_noninterference(tier int) {
	// a shared statement built from a skeleton with symbolic content
	kind := 0
	if vfChoice(4) == 3 {
		kind = 1 + vfChoice(len(vfStmtGens)-1)
	}
	op := vfChoice(len(c17Ops))
	budget, subs := tier, tier
	switch op {
	case 0, 6, 10, 11:
		budget, subs = 1, 1+tier // the operations that traverse the whole statement see every variant of it
	case 2:
		budget, subs = tier, tier
	}
	// the parsing operations see symbolic keyword spelling and whitespace, and run first on fresh package state
	// (no sequential warm-up parse that could hide a lazily initialised or memoising global);
	// for the operations on a shared AST the spelling of the text it came from is irrelevant
	g := &vfGen{tier: tier, budget: budget, sub: subs, plainKW: op > 1, plainWS: op > 1}
	// wildcard expansion: which stores happen does not depend on the letters of the names (quick tier)
	vfConcreteHoles = op == 11 && tier == 0
	vfStmtGens[kind].gen(g)
	vfConcreteHoles = false
	text := g.text()
	vfNote(text)
	if op <= 1 {
		n := vfSharedWrites(nil, func() {
			if op == 0 {
				ParseQuery(text)
			} else {
				ParseExpr(text)
			}
		})
		vfAssert(n == 0, "C17/"+c17Ops[op]+"-performs-no-store-into-shared-state")
		vfReach("C17_noninterference/ok")
		vfReach("C17_noninterference/op/" + c17Ops[op])
		return
	}
	stmt, err := ParseStatement(text)
	if err != nil {
		return
	}
	sel, isSel := stmt.(*SelectStatement)
	if !isSel && (op >= 3 && op != 13) {
		return
	}
	name := string([]byte{vfASCII(), vfASCII()})
	ds := []time.Duration{0, 1, 1500 * time.Millisecond, 90 * time.Minute, 7 * 24 * time.Hour, -3 * time.Second}
	d := ds[0]
	if op == 4 {
		d = ds[vfChoice(len(ds))] * time.Duration(1+int64(vfDigit()-'0'))
	}
	valuer := &NowValuer{Now: time.Unix(0, 1000)}
	roots := []interface{}{stmt}
	n := vfSharedWrites(roots, func() {
		switch op {
		case 0:
			ParseQuery(text)
		case 1:
			ParseExpr(text)
		case 2:
			_ = stmt.String()
		case 3:
			QuoteIdent(name)
			QuoteString(name)
			QuoteIdent(name, "", name)
		case 4:
			s := FormatDuration(d)
			ParseDuration(s)
		case 5:
			Sanitize(text)
			Sanitize("create user u with password 'p'")
		case 6:
			sel.Clone()
		case 7:
			WalkFunc(sel, func(Node) {})
		case 8:
			EvalBool(sel.Condition, map[string]interface{}{"a": int64(1), "b": "x"})
		case 9:
			Reduce(sel.Condition, valuer)
		case 10:
			sel.Reduce(valuer)
		case 11:
			sel.RewriteFields(c14Mapper{})
		case 12:
			sel.ColumnNames()
			sel.Fields.Names()
			sel.Fields.AliasNames()
		case 13:
			stmt.RequiredPrivileges()
		case 14:
			ConditionExpr(sel.Condition, valuer)
		case 15:
			CloneExpr(sel.Condition)
			for _, f := range sel.Fields {
				CloneExpr(f.Expr)
			}
		default:
			Lookup(name)
			IdentNeedsQuotes(name)
		}
	})
	vfAssert(n == 0, "C17/"+c17Ops[op]+"-performs-no-store-into-shared-state")
	vfReach("C17_noninterference/ok")
	vfReach("C17_noninterference/op/" + c17Ops[op])
}

// operations applied directly to a shared expression (not through a statement method that clones first)
var c17Exprs = []string{
	"scale(x, 10 / 5) > f(now() - 1h, y) AND host = 'a'",
	"f + i * 2 > 1.5 AND (i & 3) = 1",
	"(a + (1 + 2 + b)) * 2 > 10 OR NOT_A_CALL(c) =~ /re/",
	"time > now() - 1h AND time < '2000-01-01' AND (region::tag = 'w' OR load::field > 2)",
	"max(f) + min(i) / count(distinct(x))",
}

var c17ExprOps = []string{"Reduce", "EvalType", "EvalBool", "String", "CloneExpr", "ExprNames-Walk", "ConditionExpr", "HasTimeExpr-ContainsVarRef", "RewriteExpr-identity", "Eval"}

func vfH_C17_expressions(tier int) {
	text := c17Exprs[vfChoice(len(c17Exprs))]
	op := vfChoice(len(c17ExprOps))
	vfNote(text + " / " + c17ExprOps[op])
	expr, err := ParseExpr(text)
	if err != nil {
		vfAssert(false, "C17/expressions/fixed-expression-parses")
		return
	}
	now := vfInt64()
	vfAssume(now >= 0)
	vfAssume(now <= 1<<61)
	valuer := MultiValuer(&NowValuer{Now: time.Unix(0, now)}, MapValuer{"x": int64(4), "y": float64(2), "b": int64(1)})
	sources := Sources{&Measurement{Name: "m"}}
	n := vfSharedWrites([]interface{}{expr}, func() {
		switch op {
		case 0:
			Reduce(expr, valuer)
		case 1:
			EvalType(expr, sources, c14Mapper{})
			if b, ok := expr.(*BinaryExpr); ok {
				EvalType(b.LHS, sources, c14Mapper{})
				EvalType(b.RHS, sources, c14Mapper{})
			}
		case 2:
			EvalBool(expr, map[string]interface{}{"f": float64(1), "i": int64(2), "a": int64(1), "host": "a"})
		case 3:
			_ = expr.String()
		case 4:
			CloneExpr(expr)
		case 5:
			ExprNames(expr)
			WalkFunc(expr, func(Node) {})
		case 6:
			ConditionExpr(expr, valuer)
		case 7:
			HasTimeExpr(expr)
			ContainsVarRef(expr)
		case 8:
			RewriteExpr(CloneExpr(expr), func(e Expr) Expr { return e })
		default:
			Eval(expr, map[string]interface{}{"f": float64(1), "i": int64(2), "a": int64(1), "b": int64(2)})
		}
	})
	vfAssert(n == 0, "C17/expressions/"+c17ExprOps[op]+"-performs-no-store-into-shared-state")
	vfReach("C17_expressions/ok")
}
