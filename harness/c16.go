package influxql

// C16 — statement separation, whitespace and comments do not change meaning.

func c16WS() byte {
	return vfIteByte(vfBool(), ' ', vfIteByte(vfBool(), '\t', vfIteByte(vfBool(), '\n', '\r')))
}

// c16Filler returns a replacement for one whitespace gap.
func c16Filler(tier int) []byte {
	switch vfChoice(6) {
	case 0: // one arbitrary whitespace character (space, tab, LF, CR)
		return []byte{c16WS()}
	case 1: // two arbitrary whitespace characters
		return []byte{c16WS(), c16WS()}
	case 2:
		return []byte("\r\n")
	case 3: // line comment flanked by whitespace
		c := vfByte()
		vfAssume(c < 0x80)
		vfAssume(c != 0)
		vfAssume(c != '\n')
		vfAssume(c != '\r')
		return []byte{' ', '-', '-', c, '\n', c16WS()}
	case 4: // block comment flanked by whitespace
		c := vfByte()
		vfAssume(c < 0x80)
		vfAssume(c != 0)
		vfAssume(c != '*')
		vfAssume(c != '\r')
		return []byte{c16WS(), '/', '*', c, '*', '/', ' '}
	default: // empty block comment and a star inside
		return []byte(" /***/ ")
	}
}

func c16Gap(kind int, tier int) {
	g := &vfGen{tier: tier, budget: 0, plainWS: true, plainKW: true}
	name := vfStmtGens[kind].name
	vfStmtGens[kind].gen(g)
	canonical := g.text()
	if len(g.gaps) == 0 {
		vfReach("C16_" + name + "/ok")
		return
	}
	gi := vfChoice(len(g.gaps))
	off := g.gaps[gi]
	fill := c16Filler(tier)
	variant := canonical[:off] + string(fill) + canonical[off+1:]
	vfNote(variant)
	q1, err1 := ParseQuery(canonical)
	if err1 != nil {
		return // acceptance of the canonical text is C01's subject
	}
	q2, err2 := ParseQuery(variant)
	vfAssert(err2 == nil, "C16/"+name+"/whitespace-or-comment-variant-is-accepted")
	if err2 != nil {
		return
	}
	vfAssert(vfDeepEqual(q1, q2), "C16/"+name+"/whitespace-or-comment-variant-has-the-same-ast")
	vfReach("C16_" + name + "/ok")
}

// separators: statements joined by semicolons parse to exactly those statements
func vfH_C16_separators(tier int) {
	pool := []string{"SELECT a FROM m", "SHOW DATABASES", "DROP MEASUREMENT x", "CREATE DATABASE d WITH DURATION 1h", "DELETE FROM m WHERE k = 'v;w'"}
	n := 1 + vfChoice(3)
	var stmts []string
	for i := 0; i < n; i++ {
		stmts = append(stmts, pool[vfChoice(len(pool))])
	}
	text := ""
	// leading separators / whitespace
	switch vfChoice(3) {
	case 1:
		text = ";"
	case 2:
		text = string([]byte{c16WS()}) + ";;"
	}
	missing := false
	for i, s := range stmts {
		if i > 0 {
			switch vfChoice(4) {
			case 0:
				text += ";"
			case 1:
				text += " ; "
			case 2:
				text += ";" + string([]byte{c16WS()}) + ";"
			default:
				text += " " // no separator at all
				missing = true
			}
		}
		text += s
	}
	switch vfChoice(3) {
	case 1:
		text += ";"
	case 2:
		text += " ;; " + string([]byte{c16WS()})
	}
	vfNote(text)
	q, err := ParseQuery(text)
	if missing {
		vfAssert(err != nil, "C16/separators/missing-separator-is-an-error")
		vfReach("C16_separators/rejected")
		return
	}
	vfAssert(err == nil, "C16/separators/accepted")
	if err != nil {
		return
	}
	vfAssert(len(q.Statements) == n, "C16/separators/exactly-those-statements")
	if len(q.Statements) != n {
		return
	}
	for i, s := range stmts {
		alone, err := ParseStatement(s)
		if err == nil {
			vfAssert(vfDeepEqual(q.Statements[i], alone), "C16/separators/each-identical-to-parsing-it-alone")
		}
	}
	vfReach("C16_separators/ok")
}
func vfH_C16_select(tier int) { c16Gap(0, tier) }
func vfH_C16_explain(tier int) { c16Gap(1, tier) }
func vfH_C16_delete(tier int) { c16Gap(2, tier) }
func vfH_C16_dropseries(tier int) { c16Gap(3, tier) }
func vfH_C16_showseries(tier int) { c16Gap(4, tier) }
func vfH_C16_showseriescard(tier int) { c16Gap(5, tier) }
func vfH_C16_showmeascard(tier int) { c16Gap(6, tier) }
func vfH_C16_showtagkeycard(tier int) { c16Gap(7, tier) }
func vfH_C16_showfieldkeycard(tier int) { c16Gap(8, tier) }
func vfH_C16_showtagvalues(tier int) { c16Gap(9, tier) }
func vfH_C16_showtagvaluescard(tier int) { c16Gap(10, tier) }
func vfH_C16_showtagkeys(tier int) { c16Gap(11, tier) }
func vfH_C16_showfieldkeys(tier int) { c16Gap(12, tier) }
func vfH_C16_showmeasurements(tier int) { c16Gap(13, tier) }
func vfH_C16_showrp(tier int) { c16Gap(14, tier) }
func vfH_C16_showstats(tier int) { c16Gap(15, tier) }
func vfH_C16_showdiag(tier int) { c16Gap(16, tier) }
func vfH_C16_showgrants(tier int) { c16Gap(17, tier) }
func vfH_C16_showsimple(tier int) { c16Gap(18, tier) }
func vfH_C16_createdb(tier int) { c16Gap(19, tier) }
func vfH_C16_createrp(tier int) { c16Gap(20, tier) }
func vfH_C16_alterrp(tier int) { c16Gap(21, tier) }
func vfH_C16_users(tier int) { c16Gap(22, tier) }
func vfH_C16_grantrevoke(tier int) { c16Gap(23, tier) }
func vfH_C16_dropsimple(tier int) { c16Gap(24, tier) }
func vfH_C16_createsub(tier int) { c16Gap(25, tier) }
func vfH_C16_createcq(tier int) { c16Gap(26, tier) }
