package influxql

// C02 — printed statements re-parse to the same AST.

// c02Strip removes password text, which String() redacts on purpose.
func c02Strip(s Statement) {
	switch s := s.(type) {
	case *CreateUserStatement:
		s.Password = ""
	case *SetPasswordUserStatement:
		s.Password = ""
	}
}

func c02Kind(kind int, tier int) {
	// thorough: one deviation with two nested levels; names stay at the quick length (the printers fork on every
	// character of every name, and pairwise shapes square that cost)
	g := &vfGen{tier: 0, budget: 1, sub: 1 + tier}
	name := vfStmtGens[kind].name
	vfStmtGens[kind].gen(g)
	text := g.text()
	vfNote(text)
	q1, err := ParseQuery(text)
	if err != nil {
		return // acceptance is C01's subject
	}
	if len(q1.Statements) != 1 {
		return
	}
	s1 := q1.Statements[0]
	switch s1.(type) {
	case *CreateUserStatement, *SetPasswordUserStatement:
		// the password is redacted on purpose, so the printed text is not meant to be parsed again
		vfReach("C02_" + name + "/ok")
		return
	}
	// an empty quoted name ("") used as a measurement is printed as nothing: recorded finding, kept apart
	// so that any other printer defect is still reported
	tag := ""
	if g.emptyName {
		tag = "[empty-quoted-name]"
	}
	if cd, ok := s1.(*CreateDatabaseStatement); ok && cd.RetentionPolicyCreate && cd.RetentionPolicyDuration == nil &&
		cd.RetentionPolicyReplication == nil && cd.FutureWriteLimit == nil && cd.PastWriteLimit == nil && cd.RetentionPolicyName == "" {
		// WITH SHARD DURATION as the only option: a zero duration cannot be told from an absent one in the AST
		if cd.RetentionPolicyShardGroupDuration == 0 {
			tag = "[create-database-with-only-a-zero-shard-duration]"
		}
	}
	printed := s1.String()
	vfNote(printed)
	q2, err := ParseQuery(printed)
	vfAssert(err == nil, "C02/"+name+"/printed-text-is-accepted"+tag)
	if err != nil {
		return
	}
	vfAssert(len(q2.Statements) == 1, "C02/"+name+"/printed-text-is-one-statement")
	if len(q2.Statements) != 1 {
		return
	}
	s2 := q2.Statements[0]
	c02Strip(s1)
	c02Strip(s2)
	vfAssert(vfDeepEqual(s1, s2), "C02/"+name+"/reparsed-ast-is-identical"+tag)
	vfReach("C02_" + name + "/ok")
}

func vfH_C02_select(tier int) { c02Kind(0, tier) }
func vfH_C02_explain(tier int) { c02Kind(1, tier) }
func vfH_C02_delete(tier int) { c02Kind(2, tier) }
func vfH_C02_dropseries(tier int) { c02Kind(3, tier) }
func vfH_C02_showseries(tier int) { c02Kind(4, tier) }
func vfH_C02_showseriescard(tier int) { c02Kind(5, tier) }
func vfH_C02_showmeascard(tier int) { c02Kind(6, tier) }
func vfH_C02_showtagkeycard(tier int) { c02Kind(7, tier) }
func vfH_C02_showfieldkeycard(tier int) { c02Kind(8, tier) }
func vfH_C02_showtagvalues(tier int) { c02Kind(9, tier) }
func vfH_C02_showtagvaluescard(tier int) { c02Kind(10, tier) }
func vfH_C02_showtagkeys(tier int) { c02Kind(11, tier) }
func vfH_C02_showfieldkeys(tier int) { c02Kind(12, tier) }
func vfH_C02_showmeasurements(tier int) { c02Kind(13, tier) }
func vfH_C02_showrp(tier int) { c02Kind(14, tier) }
func vfH_C02_showstats(tier int) { c02Kind(15, tier) }
func vfH_C02_showdiag(tier int) { c02Kind(16, tier) }
func vfH_C02_showgrants(tier int) { c02Kind(17, tier) }
func vfH_C02_showsimple(tier int) { c02Kind(18, tier) }
func vfH_C02_createdb(tier int) { c02Kind(19, tier) }
func vfH_C02_createrp(tier int) { c02Kind(20, tier) }
func vfH_C02_alterrp(tier int) { c02Kind(21, tier) }
func vfH_C02_users(tier int) { c02Kind(22, tier) }
func vfH_C02_grantrevoke(tier int) { c02Kind(23, tier) }
func vfH_C02_dropsimple(tier int) { c02Kind(24, tier) }
func vfH_C02_createsub(tier int) { c02Kind(25, tier) }
func vfH_C02_createcq(tier int) { c02Kind(26, tier) }
