package main

// Native replay: a solver model (nondet vector) is run against the natively
// compiled package through `go test -overlay`.

import (
	"bufio"
	"bytes"
	"context"
	"encoding/json"
	"fmt"
	"os"
	"os/exec"
	"path/filepath"
	"sort"
	"strings"
	"time"
)

type ReplayCase struct {
	ID      string     `json:"id"`
	Harness string     `json:"harness"`
	Tier    int        `json:"tier"`
	Vector  []VecEntry `json:"vector"`
	Race    bool       `json:"race,omitempty"` // replay under the race detector (C17)
}

type ReplayResult struct {
	ID       string   `json:"id"`
	Outcome  string   `json:"outcome"`
	Msg      string   `json:"msg,omitempty"`
	Failures []string `json:"failures,omitempty"`
	Labels   []string `json:"labels,omitempty"`
	Notes    []string `json:"notes,omitempty"`
	Used     int      `json:"used"`
}

func harnessNames(ld *Loaded, prefix string) []string {
	var out []string
	for name := range ld.mainPkg.Members {
		if strings.HasPrefix(name, prefix) {
			if f := ld.mainPkg.Func(name); f != nil {
				out = append(out, name)
			}
		}
	}
	sort.Strings(out)
	return out
}

// replayNative runs the cases natively. workDir is scratch (removed afterwards).
func replayNative(repo, harnessDir string, ld *Loaded, cases []ReplayCase, timeout time.Duration) (map[string]ReplayResult, string, error) {
	res := map[string]ReplayResult{}
	if len(cases) == 0 {
		return res, "", nil
	}
	work, err := os.MkdirTemp(filepath.Join(filepath.Dir(harnessDir), ".work"), "replay")
	if err != nil {
		os.MkdirAll(filepath.Join(filepath.Dir(harnessDir), ".work"), 0o755)
		work, err = os.MkdirTemp(filepath.Join(filepath.Dir(harnessDir), ".work"), "replay")
		if err != nil {
			return nil, "", err
		}
	}
	defer os.RemoveAll(work)
	// registry
	var sb strings.Builder
	sb.WriteString("package influxql\n\nvar vfRegistry = map[string]func(int){\n")
	for _, h := range harnessNames(ld, "vfH_") {
		fmt.Fprintf(&sb, "\t%q: %s,\n", h, h)
	}
	sb.WriteString("}\n")
	regPath := filepath.Join(work, "registry_test.go")
	if err := os.WriteFile(regPath, []byte(sb.String()), 0o644); err != nil {
		return nil, "", err
	}
	ov := map[string]map[string]string{"Replace": {}}
	files, _ := filepath.Glob(filepath.Join(harnessDir, "*.go"))
	for _, f := range files {
		ov["Replace"][filepath.Join(repo, "zz_verif_"+filepath.Base(f))] = f
	}
	ov["Replace"][filepath.Join(repo, "zz_verif_registry_test.go")] = regPath
	ob, _ := json.Marshal(ov)
	ovPath := filepath.Join(work, "overlay.json")
	os.WriteFile(ovPath, ob, 0o644)
	cb, _ := json.Marshal(cases)
	casePath := filepath.Join(work, "cases.json")
	os.WriteFile(casePath, cb, 0o644)

	ctx, cancel := context.WithTimeout(context.Background(), timeout)
	defer cancel()
	argv := []string{"test", "-v", "-tags", "verif", "-vet=off", "-count=1", "-overlay", ovPath,
		"-run", "^TestVerifReplay$", "-timeout", fmt.Sprintf("%ds", int(timeout.Seconds()))}
	race := len(cases) > 0 && cases[0].Race
	if race {
		argv = append(argv, "-race")
	}
	argv = append(argv, ".")
	cmd := exec.CommandContext(ctx, "go", argv...)
	cmd.Dir = repo
	cmd.Env = append(os.Environ(), "GOFLAGS=-mod=mod", "GOPROXY=off", "GOSUMDB=off", "GOTOOLCHAIN=local", "VERIF_REPLAY="+casePath)
	var outb bytes.Buffer
	cmd.Stdout = &outb
	cmd.Stderr = &outb
	runErr := cmd.Run()
	sc := bufio.NewScanner(&outb)
	sc.Buffer(make([]byte, 1<<20), 1<<26)
	var other []string
	for sc.Scan() {
		line := sc.Text()
		if strings.HasPrefix(line, "VFRESULT ") {
			var r ReplayResult
			if err := json.Unmarshal([]byte(line[len("VFRESULT "):]), &r); err == nil {
				res[r.ID] = r
			}
		} else if len(other) < 60 {
			other = append(other, line)
		}
	}
	log := strings.Join(other, "\n")
	if race && strings.Contains(outb.String()+log, "DATA RACE") {
		// the race detector fired while the cases of this batch ran concurrently with themselves
		for id, r := range res {
			r.Outcome = "race"
			r.Msg = "race detector: WARNING: DATA RACE"
			res[id] = r
		}
		for _, c := range cases {
			if _, ok := res[c.ID]; !ok {
				res[c.ID] = ReplayResult{ID: c.ID, Outcome: "race", Msg: "race detector: WARNING: DATA RACE"}
			}
		}
	}
	if len(res) == 0 && runErr != nil {
		return res, log, fmt.Errorf("native replay failed: %v\n%s", runErr, log)
	}
	return res, log, nil
}
