package influxql

// C01 — the parser accepts the documented grammar and builds the AST it denotes.

func c01Kind(kind int, tier int) {
	b, sb := vfBudget(vfStmtGens[kind].name, tier)
	g := &vfGen{tier: tier, budget: b, sub: sb}
	want := vfStmtGens[kind].gen(g)
	text := g.text()
	vfNote(text)
	q, err := ParseQuery(text)
	vfAssert(err == nil, "C01/"+vfStmtGens[kind].name+"/accepted")
	if err != nil {
		return
	}
	vfAssert(len(q.Statements) == 1, "C01/"+vfStmtGens[kind].name+"/one-statement")
	if len(q.Statements) != 1 {
		return
	}
	vfAssert(vfDeepEqual(q.Statements[0], want), "C01/"+vfStmtGens[kind].name+"/ast-is-what-the-text-denotes")
	vfReach("C01_" + vfStmtGens[kind].name + "/ok")
}

func vfH_C01_select(tier int) { c01Kind(0, tier) }
func vfH_C01_explain(tier int) { c01Kind(1, tier) }
func vfH_C01_delete(tier int) { c01Kind(2, tier) }
func vfH_C01_dropseries(tier int) { c01Kind(3, tier) }
func vfH_C01_showseries(tier int) { c01Kind(4, tier) }
func vfH_C01_showseriescard(tier int) { c01Kind(5, tier) }
func vfH_C01_showmeascard(tier int) { c01Kind(6, tier) }
func vfH_C01_showtagkeycard(tier int) { c01Kind(7, tier) }
func vfH_C01_showfieldkeycard(tier int) { c01Kind(8, tier) }
func vfH_C01_showtagvalues(tier int) { c01Kind(9, tier) }
func vfH_C01_showtagvaluescard(tier int) { c01Kind(10, tier) }
func vfH_C01_showtagkeys(tier int) { c01Kind(11, tier) }
func vfH_C01_showfieldkeys(tier int) { c01Kind(12, tier) }
func vfH_C01_showmeasurements(tier int) { c01Kind(13, tier) }
func vfH_C01_showrp(tier int) { c01Kind(14, tier) }
func vfH_C01_showstats(tier int) { c01Kind(15, tier) }
func vfH_C01_showdiag(tier int) { c01Kind(16, tier) }
func vfH_C01_showgrants(tier int) { c01Kind(17, tier) }
func vfH_C01_showsimple(tier int) { c01Kind(18, tier) }
func vfH_C01_createdb(tier int) { c01Kind(19, tier) }
func vfH_C01_createrp(tier int) { c01Kind(20, tier) }
func vfH_C01_alterrp(tier int) { c01Kind(21, tier) }
func vfH_C01_users(tier int) { c01Kind(22, tier) }
func vfH_C01_grantrevoke(tier int) { c01Kind(23, tier) }
func vfH_C01_dropsimple(tier int) { c01Kind(24, tier) }
func vfH_C01_createsub(tier int) { c01Kind(25, tier) }
func vfH_C01_createcq(tier int) { c01Kind(26, tier) }
