package main

// Environment: models of library functions. Every entry here is part of the
// trusted base of a check that reaches it (reported in evidence as stubs_used).

import (
	"fmt"
	"go/types"
	"math"
	"reflect"
	"regexp"
	"regexp/syntax"
	"strconv"
	"strings"
	"time"
	"unicode/utf8"

	"golang.org/x/tools/go/ssa"
)

// ---- native bridge

func (in *Interp) goString(v Value, what string) string {
	s := v.(Str)
	if s.Opq {
		opaqueUse(what)
	}
	if s.B != nil {
		in.unsupported("symbolic string passed to %s", what)
	}
	return s.S
}

func (in *Interp) concTerm(v Value, what string) *Term {
	t := v.(*Term)
	if !t.IsConst() {
		in.unsupported("symbolic scalar passed to %s", what)
	}
	return t
}

func (in *Interp) mkInt(v int64) *Term { return in.ts.BV(64, uint64(v)) }

func (in *Interp) pkgType(pkg, name string) types.Type {
	p := in.prog.ImportedPackage(pkg)
	if p == nil {
		in.unsupported("package %s not loaded", pkg)
	}
	m := p.Members[name]
	if m == nil {
		in.unsupported("type %s.%s not found", pkg, name)
	}
	return m.Type()
}

// mkError builds an error value (*errors.errorString) with the given text.
func (in *Interp) mkError(msg Str) Iface {
	et := in.pkgType("errors", "errorString")
	p := new(Value)
	*p = Struct{msg}
	return Iface{T: types.NewPointer(et), V: p}
}

func (in *Interp) nilError() Iface { return Iface{} }

func (in *Interp) errOrNil(err error) Iface {
	if err == nil {
		return Iface{}
	}
	return in.mkError(Str{S: err.Error()})
}

// toNative converts a fully concrete interpreter value to a Go value of type rt.
func (in *Interp) toNative(v Value, rt reflect.Type, what string) reflect.Value {
	switch rt.Kind() {
	case reflect.String:
		return reflect.ValueOf(in.goString(v, what)).Convert(rt)
	case reflect.Bool:
		return reflect.ValueOf(in.concTerm(v, what).Bool()).Convert(rt)
	case reflect.Int, reflect.Int8, reflect.Int16, reflect.Int32, reflect.Int64:
		return reflect.ValueOf(in.concTerm(v, what).Int()).Convert(rt)
	case reflect.Uint, reflect.Uint8, reflect.Uint16, reflect.Uint32, reflect.Uint64, reflect.Uintptr:
		return reflect.ValueOf(in.concTerm(v, what).Uint()).Convert(rt)
	case reflect.Float64, reflect.Float32:
		return reflect.ValueOf(in.concTerm(v, what).Float()).Convert(rt)
	case reflect.Slice:
		xs := v.([]Value)
		out := reflect.MakeSlice(rt, len(xs), len(xs))
		for i, x := range xs {
			out.Index(i).Set(in.toNative(x, rt.Elem(), what))
		}
		if xs == nil {
			return reflect.Zero(rt)
		}
		return out
	case reflect.Array:
		xs := v.(Array)
		out := reflect.New(rt).Elem()
		for i, x := range xs {
			out.Index(i).Set(in.toNative(x, rt.Elem(), what))
		}
		return out
	case reflect.Ptr:
		switch p := v.(type) {
		case *Native:
			return reflect.ValueOf(p.V)
		case *Value:
			if p == nil {
				return reflect.Zero(rt)
			}
			out := reflect.New(rt.Elem())
			out.Elem().Set(in.toNative(*p, rt.Elem(), what))
			return out
		}
	case reflect.Struct:
		if tv, ok := v.(TimeV); ok {
			return reflect.ValueOf(in.timeNative(tv, what))
		}
		xs := v.(Struct)
		out := reflect.New(rt).Elem()
		for i, x := range xs {
			f := out.Field(i)
			if !f.CanSet() {
				in.unsupported("toNative: unexported field in %s for %s", rt, what)
			}
			f.Set(in.toNative(x, rt.Field(i).Type, what))
		}
		return out
	}
	in.unsupported("toNative: %s for %s", rt, what)
	return reflect.Value{}
}

// fromNative converts a Go value into an interpreter value of static type T.
func (in *Interp) fromNative(rv reflect.Value, T types.Type, what string) Value {
	ts := in.ts
	if namedIs(T, "time", "Time") {
		return TimeV{T: rv.Interface().(time.Time), Set: true}
	}
	switch u := T.Underlying().(type) {
	case *types.Basic:
		switch {
		case u.Info()&types.IsString != 0:
			return Str{S: rv.String()}
		case u.Info()&types.IsBoolean != 0:
			return ts.Bool(rv.Bool())
		case u.Info()&types.IsFloat != 0:
			s, _ := isFloat(T)
			return ts.FP(s, rv.Float())
		case u.Info()&types.IsInteger != 0:
			w, signed, _ := intInfo(T)
			if signed {
				return ts.BV(w, uint64(rv.Int()))
			}
			return ts.BV(w, rv.Uint())
		}
	case *types.Slice:
		if rv.IsNil() {
			return []Value(nil)
		}
		out := make([]Value, rv.Len())
		for i := range out {
			out[i] = in.fromNative(rv.Index(i), u.Elem(), what)
		}
		return out
	case *types.Array:
		out := make(Array, rv.Len())
		for i := range out {
			out[i] = in.fromNative(rv.Index(i), u.Elem(), what)
		}
		return out
	case *types.Pointer:
		if rv.IsNil() {
			return (*Value)(nil)
		}
		p := new(Value)
		*p = in.fromNative(rv.Elem(), u.Elem(), what)
		return p
	case *types.Struct:
		out := make(Struct, u.NumFields())
		for i := range out {
			f := rv.Field(i)
			out[i] = in.fromNative(f, u.Field(i).Type(), what)
		}
		return out
	case *types.Interface:
		if rv.IsNil() {
			return Iface{}
		}
		if err, ok := rv.Interface().(error); ok {
			return in.errOrNil(err)
		}
	}
	in.unsupported("fromNative: %s for %s", T, what)
	return nil
}

// nativeFn wraps a Go function so that it is called natively on concrete arguments.
func nativeFn(f interface{}) extFn {
	fv := reflect.ValueOf(f)
	ft := fv.Type()
	return func(in *Interp, fr *frame, fn *ssa.Function, args []Value) Value {
		name := fn.String()
		nin := ft.NumIn()
		ins := make([]reflect.Value, 0, len(args))
		for i, a := range args {
			var pt reflect.Type
			if ft.IsVariadic() && i >= nin-1 {
				pt = ft.In(nin - 1)
				// ssa passes the variadic slice as one argument
				ins = append(ins, in.toNative(a, pt, name))
				continue
			}
			pt = ft.In(i)
			ins = append(ins, in.toNative(a, pt, name))
		}
		var outs []reflect.Value
		if ft.IsVariadic() {
			outs = fv.CallSlice(ins)
		} else {
			outs = fv.Call(ins)
		}
		res := fn.Signature.Results()
		switch res.Len() {
		case 0:
			return nil
		case 1:
			return in.fromNative(outs[0], res.At(0).Type(), name)
		}
		t := make(Tuple, res.Len())
		for i := range t {
			t[i] = in.fromNative(outs[i], res.At(i).Type(), name)
		}
		return t
	}
}

// symOr runs the symbolic model when any argument is symbolic, else the native function.
func symOr(native extFn, sym extFn) extFn {
	return func(in *Interp, fr *frame, fn *ssa.Function, args []Value) Value {
		if allConcrete(args) {
			return native(in, fr, fn, args)
		}
		return sym(in, fr, fn, args)
	}
}

func allConcrete(args []Value) bool {
	for _, a := range args {
		if !isConcrete(a) {
			return false
		}
	}
	return true
}

func isConcrete(v Value) bool {
	switch v := v.(type) {
	case *Term:
		return v.IsConst()
	case Str:
		return v.B == nil && !v.Opq
	case []Value:
		for _, x := range v {
			if !isConcrete(x) {
				return false
			}
		}
	case Struct:
		for _, x := range v {
			if !isConcrete(x) {
				return false
			}
		}
	case Array:
		for _, x := range v {
			if !isConcrete(x) {
				return false
			}
		}
	case Iface:
		return isConcrete(v.V)
	case TimeV:
		return v.Sym == nil
	case *Value:
		// pointers: treat pointee conservatively as concrete only if it is
		return v == nil || isConcrete(*v)
	}
	return true
}

// ---- readers

type strReader struct {
	s        Str
	pos      int
	lastSize int
}

func (in *Interp) ioEOF() Iface {
	p := in.prog.ImportedPackage("io")
	g := p.Members["EOF"].(*ssa.Global)
	return (*in.globalAddr(g)).(Iface)
}

func (in *Interp) readerOf(v Value, what string) *strReader {
	n, ok := v.(*Native)
	if !ok {
		in.unsupported("%s on non-model reader %T", what, v)
	}
	switch r := n.V.(type) {
	case *strReader:
		return r
	}
	in.unsupported("%s on %T", what, n.V)
	return nil
}

func extReadRune(in *Interp, fr *frame, fn *ssa.Function, args []Value) Value {
	r := in.readerOf(args[0], fn.String())
	ts := in.ts
	if r.pos >= r.s.Len() {
		r.lastSize = -1
		return Tuple{ts.BV(32, 0), in.mkInt(0), in.ioEOF()}
	}
	ch, n := in.decodeRune(fr, r.s, r.pos)
	r.pos += n
	r.lastSize = n
	return Tuple{ch, in.mkInt(int64(n)), Iface{}}
}

func extUnreadRune(in *Interp, fr *frame, fn *ssa.Function, args []Value) Value {
	r := in.readerOf(args[0], fn.String())
	if r.lastSize <= 0 {
		return in.mkError(Str{S: "bufio: invalid use of UnreadRune"})
	}
	r.pos -= r.lastSize
	r.lastSize = -1
	return Iface{}
}

// ---- byte buffers (strings.Builder: field 1 = buf; bytes.Buffer: field 0 = buf, field 1 = off)

func (in *Interp) bufSlot(fr *frame, recv Value, idx int) *Value {
	p := in.ptr(fr, recv)
	st := (*p).(Struct)
	return &st[idx]
}

func (in *Interp) bufAppend(slot *Value, bs []*Term) {
	cur, _ := (*slot).([]Value)
	for _, b := range bs {
		cur = append(cur, b)
	}
	*slot = cur
}

func (in *Interp) bytesToStr(vs []Value) Str {
	bs := make([]*Term, len(vs))
	for i, v := range vs {
		bs[i] = v.(*Term)
	}
	return in.strFromBytes(bs)
}

func mkBufWriters(idx int) map[string]extFn {
	return map[string]extFn{
		"WriteString": func(in *Interp, fr *frame, fn *ssa.Function, args []Value) Value {
			s := args[1].(Str)
			in.bufAppend(in.bufSlot(fr, args[0], idx), in.strBytes(s))
			return Tuple{in.mkInt(int64(s.Len())), Iface{}}
		},
		"WriteByte": func(in *Interp, fr *frame, fn *ssa.Function, args []Value) Value {
			in.bufAppend(in.bufSlot(fr, args[0], idx), []*Term{args[1].(*Term)})
			return Iface{}
		},
		"WriteRune": func(in *Interp, fr *frame, fn *ssa.Function, args []Value) Value {
			s := in.runeToStr(fr, args[1].(*Term), types.Typ[types.Int32])
			in.bufAppend(in.bufSlot(fr, args[0], idx), in.strBytes(s))
			return Tuple{in.mkInt(int64(s.Len())), Iface{}}
		},
		"Write": func(in *Interp, fr *frame, fn *ssa.Function, args []Value) Value {
			src := args[1].([]Value)
			bs := make([]*Term, len(src))
			for i, v := range src {
				bs[i] = v.(*Term)
			}
			in.bufAppend(in.bufSlot(fr, args[0], idx), bs)
			return Tuple{in.mkInt(int64(len(src))), Iface{}}
		},
		"String": func(in *Interp, fr *frame, fn *ssa.Function, args []Value) Value {
			if isNilValue(args[0]) {
				return Str{S: "<nil>"}
			}
			cur, _ := (*in.bufSlot(fr, args[0], idx)).([]Value)
			return in.bytesToStr(cur)
		},
		"Len": func(in *Interp, fr *frame, fn *ssa.Function, args []Value) Value {
			cur, _ := (*in.bufSlot(fr, args[0], idx)).([]Value)
			return in.mkInt(int64(len(cur)))
		},
		"Reset": func(in *Interp, fr *frame, fn *ssa.Function, args []Value) Value {
			*in.bufSlot(fr, args[0], idx) = []Value(nil)
			return nil
		},
		"Grow": func(in *Interp, fr *frame, fn *ssa.Function, args []Value) Value { return nil },
		"Bytes": func(in *Interp, fr *frame, fn *ssa.Function, args []Value) Value {
			cur, _ := (*in.bufSlot(fr, args[0], idx)).([]Value)
			return cur
		},
	}
}

// ---- strings

func extToLower(upper bool) extFn {
	return func(in *Interp, fr *frame, fn *ssa.Function, args []Value) Value {
		s := args[0].(Str)
		if s.B == nil {
			if upper {
				return Str{S: strings.ToUpper(s.S)}
			}
			return Str{S: strings.ToLower(s.S)}
		}
		ts := in.ts
		var out []*Term
		for i := 0; i < len(s.B); {
			b := s.B[i]
			if b.IsConst() && b.C >= 0x80 {
				// concrete non-ASCII rune: map it natively (all of its bytes must be concrete)
				j := i
				var buf []byte
				for j < len(s.B) && j < i+4 && s.B[j].IsConst() {
					buf = append(buf, byte(s.B[j].C))
					j++
				}
				r, sz := utf8.DecodeRune(buf)
				if r == utf8.RuneError && sz <= 1 {
					// invalid byte: ToLower/ToUpper emit U+FFFD for it
					for _, c := range []byte(string(utf8.RuneError)) {
						out = append(out, in.byteConst(c))
					}
					i++
					continue
				}
				var m string
				if upper {
					m = strings.ToUpper(string(r))
				} else {
					m = strings.ToLower(string(r))
				}
				for k := 0; k < len(m); k++ {
					out = append(out, in.byteConst(m[k]))
				}
				i += sz
				continue
			}
			// symbolic byte: the model is exact for ASCII only
			ascii := ts.Cmp(OUlt, b, ts.BV(8, 0x80))
			if !in.branch(ascii, nil) {
				if in.path != nil && in.path.Loose {
					// totality checks: leave a symbolic non-ASCII byte as it is (case mapping
					// never panics; its result only feeds comparisons with ASCII words)
					out = append(out, b)
					i++
					continue
				}
				in.unsupported("strings.ToLower/ToUpper on symbolic non-ASCII byte")
			}
			lo, hi, d := uint64('A'), uint64('Z'), uint64(32)
			if upper {
				lo, hi, d = 'a', 'z', uint64(0x100-32)
			}
			isU := ts.And(ts.Cmp(OUle, ts.BV(8, lo), b), ts.Cmp(OUle, b, ts.BV(8, hi)))
			out = append(out, ts.Ite(isU, ts.Bin(OAdd, b, ts.BV(8, d)), b))
			i++
		}
		return in.strFromBytes(out)
	}
}

func extJoin(in *Interp, fr *frame, fn *ssa.Function, args []Value) Value {
	elems := args[0].([]Value)
	sep := args[1].(Str)
	out := Str{}
	for i, e := range elems {
		if i > 0 {
			out = in.strConcat(out, sep)
		}
		out = in.strConcat(out, e.(Str))
	}
	return out
}

// hasPrefixTerm: Bool term for strings.HasPrefix(s, p)
func (in *Interp) hasPrefixTerm(s, p Str) *Term {
	if p.Len() > s.Len() {
		return in.ts.False
	}
	return in.strEq(in.strSlice(s, 0, p.Len()), p)
}

func extTrimPrefix(in *Interp, fr *frame, fn *ssa.Function, args []Value) Value {
	s, p := args[0].(Str), args[1].(Str)
	if in.branch(in.hasPrefixTerm(s, p), nil) {
		return in.strSlice(s, p.Len(), s.Len())
	}
	return s
}

func extHasPrefix(in *Interp, fr *frame, fn *ssa.Function, args []Value) Value {
	return in.hasPrefixTerm(args[0].(Str), args[1].(Str))
}

func extHasSuffix(in *Interp, fr *frame, fn *ssa.Function, args []Value) Value {
	s, p := args[0].(Str), args[1].(Str)
	if p.Len() > s.Len() {
		return in.ts.False
	}
	return in.strEq(in.strSlice(s, s.Len()-p.Len(), s.Len()), p)
}

func extContains(in *Interp, fr *frame, fn *ssa.Function, args []Value) Value {
	s, p := args[0].(Str), args[1].(Str)
	ts := in.ts
	r := ts.False
	for i := 0; i+p.Len() <= s.Len(); i++ {
		r = ts.Or(r, in.strEq(in.strSlice(s, i, i+p.Len()), p))
	}
	return r
}

// strings.ContainsAny(s, chars) for a concrete ASCII character set (symbolic subject bytes are ASCII or
// compared byte-wise: a multi-byte character of chars cannot be matched by single ASCII bytes).
func extContainsAny(in *Interp, fr *frame, fn *ssa.Function, args []Value) Value {
	s, cs := args[0].(Str), args[1].(Str)
	if s.B == nil && cs.B == nil {
		return in.ts.Bool(strings.ContainsAny(in.goString(s, "strings.ContainsAny"), in.goString(cs, "strings.ContainsAny")))
	}
	if cs.B != nil {
		in.unsupported("strings.ContainsAny with a symbolic character set")
	}
	for i := 0; i < len(cs.S); i++ {
		if cs.S[i] >= 0x80 {
			in.unsupported("strings.ContainsAny on a symbolic string with a non-ASCII character set %q", cs.S)
		}
	}
	ts := in.ts
	r := ts.False
	for i := 0; i < s.Len(); i++ {
		b := in.strByte(s, i)
		for j := 0; j < len(cs.S); j++ {
			r = ts.Or(r, ts.Eq(b, ts.BV(8, uint64(cs.S[j]))))
		}
	}
	return r
}

// strings.ContainsRune(s, r) for an ASCII rune.
func extContainsRune(in *Interp, fr *frame, fn *ssa.Function, args []Value) Value {
	s, c := args[0].(Str), args[1].(*Term)
	if s.B == nil && c.IsConst() {
		return in.ts.Bool(strings.ContainsRune(s.S, rune(c.Int())))
	}
	if !c.IsConst() || c.Int() >= 0x80 || c.Int() < 0 {
		in.unsupported("strings.ContainsRune with a symbolic or non-ASCII rune on a symbolic string")
	}
	ts := in.ts
	r := ts.False
	for i := 0; i < s.Len(); i++ {
		r = ts.Or(r, ts.Eq(in.strByte(s, i), ts.BV(8, uint64(c.Int()))))
	}
	return r
}

// strings.Index(s, sub) for symbolic s / sub of concrete lengths.
func extIndex(in *Interp, fr *frame, fn *ssa.Function, args []Value) Value {
	s, p := args[0].(Str), args[1].(Str)
	if s.B == nil && p.B == nil {
		return in.mkInt(int64(strings.Index(in.goString(s, "strings.Index"), in.goString(p, "strings.Index"))))
	}
	ts := in.ts
	r := ts.BV(64, ^uint64(0))
	for i := s.Len() - p.Len(); i >= 0; i-- {
		r = ts.Ite(in.strEq(in.strSlice(s, i, i+p.Len()), p), ts.BV(64, uint64(i)), r)
	}
	return r
}

func extIndexByte(in *Interp, fr *frame, fn *ssa.Function, args []Value) Value {
	s, c := args[0].(Str), args[1].(*Term)
	ts := in.ts
	r := ts.BV(64, ^uint64(0))
	for i := s.Len() - 1; i >= 0; i-- {
		r = ts.Ite(ts.Eq(in.strByte(s, i), c), ts.BV(64, uint64(i)), r)
	}
	return r
}

// (*strings.Replacer).Replace for replacers whose old strings are single bytes.
type replacerModel struct {
	r     *strings.Replacer
	pairs []string
}

func extNewReplacer(in *Interp, fr *frame, fn *ssa.Function, args []Value) Value {
	xs := args[0].([]Value)
	pairs := make([]string, len(xs))
	for i, x := range xs {
		pairs[i] = in.goString(x, "strings.NewReplacer")
	}
	return &Native{V: &replacerModel{r: strings.NewReplacer(pairs...), pairs: pairs}}
}

func extReplacerReplace(in *Interp, fr *frame, fn *ssa.Function, args []Value) Value {
	rm := args[0].(*Native).V.(*replacerModel)
	s := args[1].(Str)
	if s.B == nil {
		return Str{S: rm.r.Replace(s.S)}
	}
	for i := 0; i < len(rm.pairs); i += 2 {
		if len(rm.pairs[i]) != 1 {
			in.unsupported("Replacer.Replace on symbolic string with multi-byte key %q", rm.pairs[i])
		}
	}
	out := Str{}
	for i := 0; i < len(s.B); i++ {
		b := s.B[i]
		if b.IsConst() {
			out = in.strConcat(out, Str{S: rm.r.Replace(string([]byte{byte(b.C)}))})
			continue
		}
		matched := false
		for k := 0; k < len(rm.pairs); k += 2 {
			if in.branch(in.ts.Eq(b, in.ts.BV(8, uint64(rm.pairs[k][0]))), nil) {
				out = in.strConcat(out, Str{S: rm.pairs[k+1]})
				matched = true
				break
			}
		}
		if !matched {
			out = in.strConcat(out, Str{B: []*Term{b}})
		}
	}
	return out
}

// ---- strconv

type digitsProv struct {
	digits []*Term // most significant first, each an ASCII digit byte
	neg    bool
}

func (in *Interp) isDigitTerm(b *Term) *Term {
	ts := in.ts
	return ts.And(ts.Cmp(OUle, ts.BV(8, '0'), b), ts.Cmp(OUle, b, ts.BV(8, '9')))
}

// parseDecimal models strconv.ParseInt/ParseUint(s, 10, bits) on a symbolic string.
// Returns (value 64-bit term, error Iface).
func (in *Interp) parseDecimal(fr *frame, s Str, signed bool, bitSize int, fname string) (Value, Value) {
	return in.parseInteger(fr, s, signed, bitSize, fname, 10)
}

// parseInteger models strconv.ParseInt / ParseUint for base 10 and for base 0 (decimal, or octal after a
// leading zero; the 0x / 0b / 0o prefixes and digit-separating underscores are outside the model).
func (in *Interp) parseInteger(fr *frame, s Str, signed bool, bitSize int, fname string, base int) (Value, Value) {
	ts := in.ts
	if s.Len() == 0 {
		return ts.BV(64, 0), in.mkError(Str{S: "strconv." + fname + ": parsing \"\": invalid syntax"})
	}
	bs := in.strBytes(s)
	neg := false
	i := 0
	if signed {
		if in.branch(ts.Eq(bs[0], ts.BV(8, '-')), nil) {
			neg = true
			i = 1
		} else if in.branch(ts.Eq(bs[0], ts.BV(8, '+')), nil) {
			i = 1
		}
	}
	synErr := func() (Value, Value) {
		return ts.BV(64, 0), in.mkError(in.strConcat(in.strConcat(Str{S: "strconv." + fname + ": parsing \""}, s), Str{S: "\": invalid syntax"}))
	}
	if i >= len(bs) {
		return synErr()
	}
	ds := bs[i:]
	radix := uint64(10)
	if base == 0 && len(ds) > 1 && in.branch(ts.Eq(ds[0], ts.BV(8, '0')), nil) {
		// a leading zero selects octal
		for _, c := range []byte("xXbBoO_") {
			if in.branch(ts.Eq(ds[1], ts.BV(8, uint64(c))), nil) {
				in.unsupported("%s base 0: prefix 0%c on a symbolic string", fname, c)
			}
		}
		radix = 8
		ds = ds[1:]
	}
	for _, d := range ds {
		if base == 0 && in.branch(ts.Eq(d, ts.BV(8, '_')), nil) {
			in.unsupported("%s base 0: underscore in a symbolic string", fname)
		}
		ok := in.isDigitTerm(d)
		if radix == 8 {
			ok = ts.And(ts.Cmp(OUle, ts.BV(8, '0'), d), ts.Cmp(OUle, d, ts.BV(8, '7')))
		}
		if !in.branch(ok, nil) {
			// underscore etc. are invalid in base 10
			return synErr()
		}
	}
	if len(ds) > 20 {
		// strip leading zeros concretely if possible, else give up
		in.unsupported("parseDecimal: more than 20 digits")
	}
	// magnitude as 64-bit with overflow detection: use 128-bit-free approach:
	// acc' = acc*10 + d overflows iff acc > (max - d)/10. Build terms.
	limit := uint64(math.MaxUint64)
	if signed {
		limit = uint64(1) << uint(bitSize-1) // magnitude limit for negative
		if !neg {
			limit--
		}
	} else if bitSize < 64 {
		limit = (uint64(1) << uint(bitSize)) - 1
	}
	acc := ts.BV(64, 0)
	over := ts.False
	for i, d := range ds {
		dv := ts.ZExt(ts.Bin(OSub, d, ts.BV(8, '0')), 64)
		m := ts.Bin(OMul, acc, ts.BV(64, radix))
		nacc := ts.Bin(OAdd, m, dv)
		if i >= 19 && radix == 10 {
			// only a 20th digit can push the value past 2^64 (10^19 < 2^64 < 10^20)
			o1 := ts.Cmp(OUlt, ts.BV(64, math.MaxUint64/10), acc) // acc > max/10
			o2 := ts.Cmp(OUlt, nacc, m)                           // wrapped on add
			over = ts.OrN(over, o1, o2)
		}
		acc = nacc
	}
	over = ts.Or(over, ts.Cmp(OUlt, ts.BV(64, limit), acc))
	if in.branch(over, nil) {
		var v uint64
		if signed {
			if neg {
				v = uint64(-(int64(1) << uint(bitSize-1)))
			} else {
				v = limit
			}
		} else {
			v = limit
		}
		return ts.BV(64, v), in.mkError(in.strConcat(in.strConcat(Str{S: "strconv." + fname + ": parsing \""}, s), Str{S: "\": value out of range"}))
	}
	val := acc
	if neg {
		val = ts.Neg(acc)
	}
	if !val.IsConst() && radix == 10 {
		in.digitProv[val.ID] = &digitsProv{digits: ds, neg: neg}
	}
	return val, Iface{}
}

// formatDecimal renders a 64-bit integer term in base 10.
func (in *Interp) formatDecimal(fr *frame, v *Term, signed bool) Str {
	ts := in.ts
	if v.IsConst() {
		if signed {
			return Str{S: strconv.FormatInt(v.Int(), 10)}
		}
		return Str{S: strconv.FormatUint(v.Uint(), 10)}
	}
	// a choice among constants (e.g. a counter read from a map under a symbolic key): resolve it
	if v.Op == OIte && (v.A[1].IsConst() || v.A[2].IsConst()) {
		if in.branch(v.A[0], nil) {
			return in.formatDecimal(fr, v.A[1], signed)
		}
		return in.formatDecimal(fr, v.A[2], signed)
	}
	w := int(v.S.W)
	if w < 64 {
		if signed {
			v = ts.SExt(v, 64)
		} else {
			v = ts.ZExt(v, 64)
		}
	}
	// provenance shortcut: v was parsed from digits d1..dk: its canonical
	// rendering is those digits without leading zeros.
	if p, ok := in.digitProv[v.ID]; ok && (!p.neg || signed) {
		ds := p.digits
		for len(ds) > 1 && in.branch(ts.Eq(ds[0], ts.BV(8, '0')), nil) {
			ds = ds[1:]
		}
		// "-0" parses to 0 which prints as "0"
		if p.neg && len(ds) == 1 && in.branch(ts.Eq(ds[0], ts.BV(8, '0')), nil) {
			return Str{S: "0"}
		}
		out := in.strFromBytes(ds)
		if p.neg {
			out = in.strConcat(Str{S: "-"}, out)
		}
		return out
	}
	neg := false
	mag := v
	if signed {
		if in.branch(ts.Cmp(OSlt, v, ts.BV(64, 0)), nil) {
			neg = true
			mag = ts.Neg(v)
		}
	}
	// digit count split
	n := 1
	pow := uint64(10)
	for n < 20 {
		if in.branch(ts.Cmp(OUlt, mag, ts.BV(64, pow)), nil) {
			break
		}
		n++
		if n == 20 {
			break
		}
		pow *= 10
	}
	// Skolem witnesses: fresh digit bytes d1..dn with d1 != '0' (n>1) whose
	// Horner value equals mag. Such digits exist and are unique, so adding
	// the defining constraint to the path condition is sound; it replaces
	// div/mod-by-10^k terms, which the solver handles badly.
	ds := make([]*Term, n)
	acc := ts.BV(64, 0)
	for i := 0; i < n; i++ {
		d := in.newAux("u8", SBV(8))
		ds[i] = d
		in.addPC(in.isDigitTerm(d))
		if i == 0 && n > 1 {
			in.addPC(ts.Not(ts.Eq(d, ts.BV(8, '0'))))
		}
		dv := ts.ZExt(ts.Bin(OSub, d, ts.BV(8, '0')), 64)
		m10 := ts.Bin(OMul, acc, ts.BV(64, 10))
		nacc := ts.Bin(OAdd, m10, dv)
		if n >= 20 { // the Horner value must not wrap (only possible with 20 digits)
			in.addPC(ts.Not(ts.Cmp(OUlt, ts.BV(64, math.MaxUint64/10), acc)))
			in.addPC(ts.Not(ts.Cmp(OUlt, nacc, m10)))
		}
		acc = nacc
	}
	in.addPC(ts.Eq(acc, mag))
	out := in.strFromBytes(ds)
	if neg {
		out = in.strConcat(Str{S: "-"}, out)
	}
	return out
}

// ---- fmt

func (in *Interp) fmtValue(fr *frame, verb byte, a Value) Str {
	// a is an interface value (fmt args are ...interface{})
	iv, isI := a.(Iface)
	if !isI {
		iv = Iface{T: nil, V: a}
	}
	if iv.T == nil && isI {
		if verb == 'T' {
			return Str{S: "<nil>"}
		}
		return Str{S: "%!" + string(verb) + "(<nil>)"}
	}
	if verb == 'T' {
		return Str{S: iv.T.String()}
	}
	if verb == 's' || verb == 'v' || verb == 'q' {
		// error / Stringer
		if verb != 'q' || true {
			if m := in.findMethod(iv.T, "Error"); m != nil && m.Signature.Results().Len() == 1 {
				r := in.callFunction(fr, m, []Value{iv.V}, nil).(Str)
				if verb == 'q' {
					return in.quoteStr(r)
				}
				return r
			}
			if m := in.findMethod(iv.T, "String"); m != nil && m.Signature.Params().Len() == 0 && m.Signature.Results().Len() == 1 && isString(m.Signature.Results().At(0).Type()) {
				r := in.callFunction(fr, m, []Value{iv.V}, nil).(Str)
				if verb == 'q' {
					return in.quoteStr(r)
				}
				return r
			}
		}
	}
	switch v := iv.V.(type) {
	case Str:
		switch verb {
		case 's', 'v':
			return v
		case 'q':
			return in.quoteStr(v)
		}
	case *Term:
		switch v.S.K {
		case KBool:
			if verb == 't' || verb == 'v' {
				if in.branch(v, nil) {
					return Str{S: "true"}
				}
				return Str{S: "false"}
			}
		case KBV:
			_, signed, _ := intInfo(iv.T)
			switch verb {
			case 'd', 'v':
				return in.formatDecimal(fr, v, signed)
			case 'c':
				return in.runeToStr(fr, v, iv.T)
			case 's':
				if v.IsConst() {
					return Str{S: fmt.Sprintf("%%!s(%s=%d)", iv.T.String(), v.Int())}
				}
			case 'x', 'X', 'o', 'b', 'q', 'U':
				if v.IsConst() {
					if signed {
						return Str{S: fmt.Sprintf("%"+string(verb), v.Int())}
					}
					return Str{S: fmt.Sprintf("%"+string(verb), v.Uint())}
				}
			}
		case KFP:
			if v.IsConst() {
				return Str{S: fmt.Sprintf("%"+string(verb), v.Float())}
			}
		}
	case []Value:
		// []string or []byte most likely: %v / %s
		if sl, ok := iv.T.Underlying().(*types.Slice); ok {
			if isString(sl.Elem()) && (verb == 'v' || verb == 's') {
				out := Str{S: "["}
				for i, e := range v {
					if i > 0 {
						out = in.strConcat(out, Str{S: " "})
					}
					out = in.strConcat(out, e.(Str))
				}
				return in.strConcat(out, Str{S: "]"})
			}
			if b, ok := sl.Elem().Underlying().(*types.Basic); ok && b.Kind() == types.Uint8 && verb == 's' {
				return in.bytesToStr(v)
			}
		}
	}
	in.unsupported("fmt verb %%%c on %T (type %v)", verb, iv.V, iv.T)
	return Str{}
}

func (in *Interp) quoteStr(s Str) Str {
	if s.Opq {
		return s
	}
	if s.B == nil {
		return Str{S: strconv.Quote(s.S)}
	}
	in.unsupported("%%q of symbolic string")
	return Str{}
}

func (in *Interp) sprintf(fr *frame, format Str, args []Value) Str {
	f := in.goStringStr(format, "fmt format string")
	out := Str{}
	argi := 0
	lit := strings.Builder{}
	flush := func() {
		if lit.Len() > 0 {
			out = in.strConcat(out, Str{S: lit.String()})
			lit.Reset()
		}
	}
	for i := 0; i < len(f); i++ {
		c := f[i]
		if c != '%' {
			lit.WriteByte(c)
			continue
		}
		i++
		if i >= len(f) {
			lit.WriteString("%!(NOVERB)")
			break
		}
		if f[i] == '%' {
			lit.WriteByte('%')
			continue
		}
		// flags / width / precision: only allowed on concrete args
		j := i
		for j < len(f) && strings.IndexByte("+-# 0123456789.", f[j]) >= 0 {
			j++
		}
		if j >= len(f) {
			lit.WriteString("%!(NOVERB)")
			break
		}
		verb := f[j]
		spec := f[i-1 : j+1]
		i = j
		if argi >= len(args) {
			lit.WriteString("%!" + string(verb) + "(MISSING)")
			continue
		}
		a := args[argi]
		argi++
		flush()
		if len(spec) > 2 {
			// with flags: need a concrete basic argument
			iv := a.(Iface)
			switch v := iv.V.(type) {
			case *Term:
				if v.IsConst() {
					_, signed, isInt := intInfo(iv.T)
					switch {
					case v.S.K == KFP:
						out = in.strConcat(out, Str{S: fmt.Sprintf(spec, v.Float())})
					case isInt && signed:
						out = in.strConcat(out, Str{S: fmt.Sprintf(spec, v.Int())})
					case isInt:
						out = in.strConcat(out, Str{S: fmt.Sprintf(spec, v.Uint())})
					default:
						out = in.strConcat(out, Str{S: fmt.Sprintf(spec, v.Bool())})
					}
					continue
				}
			case Str:
				if v.B == nil {
					out = in.strConcat(out, Str{S: fmt.Sprintf(spec, v.S)})
					continue
				}
			}
			in.unsupported("fmt spec %q on symbolic or composite argument", spec)
		}
		out = in.strConcat(out, in.fmtValue(fr, verb, a))
	}
	flush()
	if argi < len(args) {
		out = in.strConcat(out, Str{S: "%!(EXTRA ...)"})
	}
	return out
}

func (in *Interp) goStringStr(s Str, what string) string {
	if s.B != nil {
		in.unsupported("symbolic %s", what)
	}
	return s.S
}

func extSprintf(in *Interp, fr *frame, fn *ssa.Function, args []Value) Value {
	va, _ := args[1].([]Value)
	return in.sprintf(fr, args[0].(Str), va)
}

func extErrorf(in *Interp, fr *frame, fn *ssa.Function, args []Value) Value {
	va, _ := args[1].([]Value)
	// error text built from symbolic data is opaque: formatting it would fork
	// on digit counts and escapes although no property inspects it.
	for _, a := range va {
		if !isConcrete(a) {
			return in.mkError(Str{Opq: true})
		}
	}
	return in.mkError(in.sprintf(fr, args[0].(Str), va))
}

func extFprintf(in *Interp, fr *frame, fn *ssa.Function, args []Value) Value {
	va, _ := args[2].([]Value)
	s := in.sprintf(fr, args[1].(Str), va)
	return in.writeTo(fr, args[0].(Iface), s)
}

func (in *Interp) writeTo(fr *frame, w Iface, s Str) Value {
	// io.Writer: call WriteString if available else Write
	if m := in.findMethod(w.T, "WriteString"); m != nil {
		return in.callFunction(fr, m, []Value{w.V, s}, nil)
	}
	m := in.findMethod(w.T, "Write")
	if m == nil {
		in.unsupported("Fprintf to %s", w.T)
	}
	bs := make([]Value, s.Len())
	for i := range bs {
		bs[i] = in.strByte(s, i)
	}
	return in.callFunction(fr, m, []Value{w.V, bs}, nil)
}

func extSprint(in *Interp, fr *frame, fn *ssa.Function, args []Value) Value {
	va, _ := args[0].([]Value)
	out := Str{}
	for _, a := range va {
		out = in.strConcat(out, in.fmtValue(fr, 'v', a))
	}
	return out
}

// ---- regexp (native handles; symbolic subjects handled by revm.go)

func extRegexpCompile(must bool) extFn {
	return func(in *Interp, fr *frame, fn *ssa.Function, args []Value) Value {
		if s := args[0].(Str); s.B != nil && in.path != nil && in.path.Loose {
			// totality checks: a pattern with symbolic characters either compiles or is rejected
			if in.choice(2, "loose-regexp") == 0 {
				return looseResult(in, fr, must, &Native{V: regexp.MustCompile("placeholder")}, nil)
			}
			return looseResult(in, fr, must, nil, in.mkError(Str{Opq: true}))
		}
		pat := in.goString(args[0], "regexp.Compile")
		re, err := regexp.Compile(pat)
		if must {
			if err != nil {
				in.goPanic(fr, Str{S: err.Error()}, "regexp: Compile("+strconv.Quote(pat)+"): "+err.Error())
			}
			return &Native{V: re}
		}
		if err != nil {
			return Tuple{(*Value)(nil), in.errOrNil(err)}
		}
		return Tuple{&Native{V: re}, Iface{}}
	}
}

func looseResult(in *Interp, fr *frame, must bool, re *Native, err Value) Value {
	if must {
		if re == nil {
			in.goPanic(fr, Str{S: "regexp: Compile: error"}, "regexp: Compile(symbolic pattern): error")
		}
		return re
	}
	if re == nil {
		return Tuple{(*Value)(nil), err}
	}
	return Tuple{re, Iface{}}
}

func (in *Interp) regexpOf(fr *frame, v Value) *regexp.Regexp {
	n, ok := v.(*Native)
	if !ok || n == nil {
		in.runtimePanic(fr, "invalid memory address or nil pointer dereference (nil *regexp.Regexp)")
	}
	return n.V.(*regexp.Regexp)
}

func extRegexpString(in *Interp, fr *frame, fn *ssa.Function, args []Value) Value {
	return Str{S: in.regexpOf(fr, args[0]).String()}
}

func extRegexpCopy(in *Interp, fr *frame, fn *ssa.Function, args []Value) Value {
	return &Native{V: in.regexpOf(fr, args[0]).Copy()}
}

func extRegexpMatchString(in *Interp, fr *frame, fn *ssa.Function, args []Value) Value {
	re := in.regexpOf(fr, args[0])
	s := args[1].(Str)
	if s.B == nil {
		return in.ts.Bool(re.MatchString(s.S))
	}
	return in.reMatchSym(fr, re, s)
}

func extRegexpFindAllStringSubmatchIndex(in *Interp, fr *frame, fn *ssa.Function, args []Value) Value {
	re := in.regexpOf(fr, args[0])
	s := args[1].(Str)
	n := in.concreteInt(fr, args[2], "FindAll n")
	if s.B == nil {
		res := re.FindAllStringSubmatchIndex(s.S, n)
		if res == nil {
			return []Value(nil)
		}
		out := make([]Value, len(res))
		for i, m := range res {
			row := make([]Value, len(m))
			for j, x := range m {
				row[j] = in.mkInt(int64(x))
			}
			out[i] = row
		}
		return out
	}
	return in.reFindAllSym(fr, re, s, n)
}

func extSyntaxParse(in *Interp, fr *frame, fn *ssa.Function, args []Value) Value {
	pat := in.goString(args[0], "syntax.Parse")
	flags := syntax.Flags(in.concTerm(args[1], "syntax.Parse").Uint())
	re, err := syntax.Parse(pat, flags)
	res := fn.Signature.Results()
	if err != nil {
		return Tuple{(*Value)(nil), in.errOrNil(err)}
	}
	return Tuple{in.fromNative(reflect.ValueOf(re), res.At(0).Type(), "syntax.Parse"), Iface{}}
}

func extSyntaxSimplify(in *Interp, fr *frame, fn *ssa.Function, args []Value) Value {
	rt := reflect.TypeOf((*syntax.Regexp)(nil))
	nat := in.toNative(args[0], rt, "syntax.Simplify").Interface().(*syntax.Regexp)
	out := nat.Simplify()
	return in.fromNative(reflect.ValueOf(out), fn.Signature.Results().At(0).Type(), "syntax.Simplify")
}

// ---- math

func extMathMod(in *Interp, fr *frame, fn *ssa.Function, args []Value) Value {
	a, b := args[0].(*Term), args[1].(*Term)
	if a.IsConst() && b.IsConst() {
		return in.ts.F64(math.Mod(a.Float(), b.Float()))
	}
	return in.ts.UF("math_Mod", SF64, a, b)
}

// ---- utf8 helpers interpreted natively on concrete input, symbolically via decodeRune

func extUtf8RuneLen(in *Interp, fr *frame, fn *ssa.Function, args []Value) Value {
	r := in.concTerm(args[0], "utf8.RuneLen")
	return in.mkInt(int64(utf8.RuneLen(rune(r.Int()))))
}

func (in *Interp) registerExt() {
	in.ext = map[string]extFn{}
	reg := func(name string, f extFn) { in.ext[name] = f }

	reg("strings.NewReader", func(in *Interp, fr *frame, fn *ssa.Function, args []Value) Value {
		return &Native{V: &strReader{s: args[0].(Str), lastSize: -1}}
	})
	reg("bufio.NewReader", func(in *Interp, fr *frame, fn *ssa.Function, args []Value) Value {
		iv := args[0].(Iface)
		if n, ok := iv.V.(*Native); ok {
			if _, ok := n.V.(*strReader); ok {
				return n // the rune cursor is shared
			}
		}
		in.unsupported("bufio.NewReader over %v", iv.T)
		return nil
	})
	reg("(*bufio.Reader).ReadRune", extReadRune)
	reg("(*bufio.Reader).UnreadRune", extUnreadRune)
	reg("(*strings.Reader).ReadRune", extReadRune)
	reg("(*strings.Reader).UnreadRune", extUnreadRune)

	for name, f := range mkBufWriters(1) {
		reg("(*strings.Builder)."+name, f)
	}
	for name, f := range mkBufWriters(0) {
		reg("(*bytes.Buffer)."+name, f)
	}
	reg("bytes.NewBufferString", func(in *Interp, fr *frame, fn *ssa.Function, args []Value) Value {
		T := fn.Signature.Results().At(0).Type().(*types.Pointer).Elem()
		p := new(Value)
		*p = in.zero(T)
		st := (*p).(Struct)
		s := args[0].(Str)
		bs := make([]Value, s.Len())
		for i := range bs {
			bs[i] = in.strByte(s, i)
		}
		st[0] = bs
		return p
	})

	reg("strings.ToLower", extToLower(false))
	reg("strings.ToUpper", extToLower(true))
	reg("strings.Join", extJoin)
	reg("strings.TrimPrefix", extTrimPrefix)
	reg("strings.HasPrefix", extHasPrefix)
	reg("strings.HasSuffix", extHasSuffix)
	reg("strings.Contains", extContains)
	reg("strings.IndexByte", extIndexByte)
	reg("strings.NewReplacer", extNewReplacer)
	reg("(*strings.Replacer).Replace", extReplacerReplace)
	reg("strings.Replace", nativeFn(strings.Replace))
	reg("strings.ReplaceAll", nativeFn(strings.ReplaceAll))
	reg("strings.Repeat", nativeFn(strings.Repeat))
	reg("strings.TrimSpace", nativeFn(strings.TrimSpace))
	reg("strings.Split", nativeFn(strings.Split))
	reg("strings.Fields", nativeFn(strings.Fields))
	reg("strings.Index", extIndex)
	reg("strings.EqualFold", nativeFn(strings.EqualFold))
	reg("strings.Title", nativeFn(strings.Title))
	reg("strings.TrimSuffix", nativeFn(strings.TrimSuffix))
	reg("strings.Trim", nativeFn(strings.Trim))
	reg("strings.TrimLeft", nativeFn(strings.TrimLeft))
	reg("strings.TrimRight", nativeFn(strings.TrimRight))
	reg("strings.Count", nativeFn(strings.Count))
	reg("strings.LastIndex", nativeFn(strings.LastIndex))
	reg("strings.ContainsRune", extContainsRune)
	reg("strings.ContainsAny", extContainsAny)

	reg("strconv.Itoa", func(in *Interp, fr *frame, fn *ssa.Function, args []Value) Value {
		return in.formatDecimal(fr, args[0].(*Term), true)
	})
	reg("strconv.FormatInt", func(in *Interp, fr *frame, fn *ssa.Function, args []Value) Value {
		base := in.concreteInt(fr, args[1], "FormatInt base")
		v := args[0].(*Term)
		if base != 10 {
			if !v.IsConst() {
				in.unsupported("FormatInt base %d symbolic", base)
			}
			return Str{S: strconv.FormatInt(v.Int(), base)}
		}
		return in.formatDecimal(fr, v, true)
	})
	reg("strconv.FormatUint", func(in *Interp, fr *frame, fn *ssa.Function, args []Value) Value {
		base := in.concreteInt(fr, args[1], "FormatUint base")
		v := args[0].(*Term)
		if base != 10 {
			if !v.IsConst() {
				in.unsupported("FormatUint base %d symbolic", base)
			}
			return Str{S: strconv.FormatUint(v.Uint(), base)}
		}
		return in.formatDecimal(fr, v, false)
	})
	reg("strconv.Atoi", func(in *Interp, fr *frame, fn *ssa.Function, args []Value) Value {
		s := args[0].(Str)
		if s.B == nil {
			v, err := strconv.Atoi(s.S)
			return Tuple{in.mkInt(int64(v)), in.errOrNil(err)}
		}
		v, e := in.parseDecimal(fr, s, true, 64, "Atoi")
		return Tuple{v, e}
	})
	reg("strconv.ParseInt", func(in *Interp, fr *frame, fn *ssa.Function, args []Value) Value {
		s := args[0].(Str)
		base := in.concreteInt(fr, args[1], "ParseInt base")
		bits := in.concreteInt(fr, args[2], "ParseInt bits")
		if s.B == nil {
			v, err := strconv.ParseInt(s.S, base, bits)
			return Tuple{in.mkInt(v), in.errOrNil(err)}
		}
		if base != 10 && base != 0 {
			in.unsupported("ParseInt base %d symbolic", base)
		}
		if bits == 0 {
			bits = 64
		}
		v, e := in.parseInteger(fr, s, true, bits, "ParseInt", base)
		return Tuple{v, e}
	})
	reg("strconv.ParseUint", func(in *Interp, fr *frame, fn *ssa.Function, args []Value) Value {
		s := args[0].(Str)
		base := in.concreteInt(fr, args[1], "ParseUint base")
		bits := in.concreteInt(fr, args[2], "ParseUint bits")
		if s.B == nil {
			v, err := strconv.ParseUint(s.S, base, bits)
			return Tuple{in.ts.BV(64, v), in.errOrNil(err)}
		}
		if base != 10 {
			in.unsupported("ParseUint base %d symbolic", base)
		}
		if bits == 0 {
			bits = 64
		}
		v, e := in.parseDecimal(fr, s, false, bits, "ParseUint")
		return Tuple{v, e}
	})
	reg("strconv.ParseFloat", symOr(nativeFn(strconv.ParseFloat), func(in *Interp, fr *frame, fn *ssa.Function, args []Value) Value {
		if in.path == nil || !in.path.Loose {
			in.unsupported("symbolic string passed to strconv.ParseFloat")
		}
		if in.choice(2, "loose-parsefloat") == 0 {
			return Tuple{in.ts.F64(1.5), Iface{}} // placeholder value: only totality is claimed in this mode
		}
		return Tuple{in.ts.F64(0), in.mkError(Str{Opq: true})}
	}))
	reg("strconv.FormatFloat", nativeFn(strconv.FormatFloat))
	reg("strconv.Quote", nativeFn(strconv.Quote))
	reg("strconv.ParseBool", nativeFn(strconv.ParseBool))
	reg("strconv.FormatBool", nativeFn(strconv.FormatBool))

	reg("fmt.Sprintf", extSprintf)
	reg("fmt.Errorf", extErrorf)
	reg("fmt.Fprintf", extFprintf)
	reg("fmt.Sprint", extSprint)

	reg("regexp.Compile", extRegexpCompile(false))
	reg("regexp.MustCompile", extRegexpCompile(true))
	reg("(*regexp.Regexp).String", extRegexpString)
	reg("(*regexp.Regexp).Copy", extRegexpCopy)
	reg("(*regexp.Regexp).MatchString", extRegexpMatchString)
	reg("(*regexp.Regexp).FindAllStringSubmatchIndex", extRegexpFindAllStringSubmatchIndex)
	reg("regexp/syntax.Parse", extSyntaxParse)
	reg("(*regexp/syntax.Regexp).Simplify", extSyntaxSimplify)

	reg("math.Mod", extMathMod)
	reg("math.Floor", nativeFn(math.Floor))
	reg("math.Ceil", nativeFn(math.Ceil))
	reg("math.Abs", nativeFn(math.Abs))
	reg("math.IsNaN", func(in *Interp, fr *frame, fn *ssa.Function, args []Value) Value {
		return in.ts.FIsNaN(args[0].(*Term))
	})
	reg("math.IsInf", nativeFn(math.IsInf))
	reg("math.Inf", nativeFn(math.Inf))
	reg("math.NaN", nativeFn(math.NaN))
	reg("math.Float64bits", nativeFn(math.Float64bits))
	reg("math.Float64frombits", nativeFn(math.Float64frombits))
	reg("unicode/utf8.RuneLen", extUtf8RuneLen)

	in.registerTime(reg)
	in.registerIntrinsics(reg)
}
