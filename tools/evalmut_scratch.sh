#!/bin/bash
# usage: evalmut.sh <property> <mutant dir with patch.diff demo_test.go meta.json> <name>
# Applies the seeded change to /repo, confirms it (builds, existing suite passes, demonstration fails),
# runs the property's quick check, undoes the change, confirms the demonstration passes without it.
set -u
export GOFLAGS=-mod=mod GOPROXY=off GOSUMDB=off GOTOOLCHAIN=local
P=$1; D=$2; N=$3
OUT=/verif/seeded/$N
mkdir -p $OUT
cp $D/patch.diff $D/demo_test.go $OUT/ 2>/dev/null
cd /tmp/mutrepo || exit 2
if ! git diff --quiet; then echo "repo not clean"; exit 2; fi
git checkout -q --detach $(git -C /repo rev-parse HEAD) || exit 2
git apply $OUT/patch.diff || { echo "APPLY-FAILED"; exit 2; }
build=ok; go build ./... >/dev/null 2>&1 || build=FAIL
suite=pass; go test -vet=off -count=1 ./... >/dev/null 2>&1 || suite=FAIL
cp $OUT/demo_test.go /tmp/mutrepo/zz_demo_test.go
demo_with=pass; go test -vet=off -count=1 -run 'TestDemo$' . >/dev/null 2>&1 || demo_with=fail
if grep -q '"-race\|go test -race' $D/meta.json 2>/dev/null; then
  demo_with=pass; go test -race -vet=off -count=1 -run 'TestDemo$' . >/dev/null 2>&1 || demo_with=fail
fi
rm -f /tmp/mutrepo/zz_demo_test.go
start=$(date +%s)
/verif/check -repo /tmp/mutrepo -workers 16 -noevidence $P quick > $OUT/check.log 2>&1
code=$?
end=$(date +%s)
git checkout -- . 
cp $OUT/demo_test.go /tmp/mutrepo/zz_demo_test.go
demo_without=pass; go test -vet=off -count=1 -run 'TestDemo$' . >/dev/null 2>&1 || demo_without=fail
rm -f /tmp/mutrepo/zz_demo_test.go
viol=$(grep -c '^VIOLATION' $OUT/check.log)
python3 - "$P" "$N" "$D/meta.json" "$build" "$suite" "$demo_with" "$demo_without" "$code" "$viol" "$((end-start))" <<'PY'
import json,sys
P,N,meta,build,suite,dw,dwo,code,viol,secs=sys.argv[1:]
try: m=json.load(open(meta))
except Exception: m={}
m.update({"property":P,"name":N,"confirmed":{"builds":build,"existing_suite":suite,"demo_with_change":dw,"demo_without_change":dwo},
          "check":{"cmd":f"/verif/check {P} quick","exit":int(code),"violation_lines":int(viol),"wall_s":int(secs)},
          "caught": int(code)==1 and int(viol)>0})
import re
by=[]
for l in open(f"/verif/seeded/{N}/check.log", errors="replace"):
    mm=re.match(r"\s+(vfH_\w+): (\S+)", l)
    if mm and (mm.group(1)+": "+mm.group(2)) not in by: by.append(mm.group(1)+": "+mm.group(2))
m["caught_by"]=by[:6]
json.dump(m,open(f"/verif/seeded/{N}/meta.json","w"),indent=1)
print(N, "build",build,"suite",suite,"demo_with",dw,"demo_without",dwo,"check_exit",code,"violations",viol,"secs",secs, "CAUGHT" if m["caught"] else "MISSED")
PY
