package influxql

// C09 — constant folding never changes the value of an expression.

const (
	c09Int = iota
	c09Uint
	c09Float
	c09Bool
)

type c09Env struct {
	red  map[string]interface{} // bindings given to Reduce
	rest map[string]interface{} // bindings left for the evaluator
	all  map[string]interface{}
	n    int
}

// leaf builds a literal or a variable of the given kind with a symbolic value.
// mode 0: literal; 1: variable bound for Reduce; 2: variable bound only for the evaluator.
func (e *c09Env) leaf(kind, mode int) Expr {
	var v interface{}
	var lit Expr
	switch kind {
	case c09Int:
		x := vfInt64()
		v, lit = x, &IntegerLiteral{Val: x}
	case c09Uint:
		x := vfUint64()
		v, lit = x, &UnsignedLiteral{Val: x}
	case c09Float:
		x := vfFloat64()
		v, lit = x, &NumberLiteral{Val: x}
	default:
		x := vfBool()
		v, lit = x, &BooleanLiteral{Val: x}
	}
	if mode == 0 {
		return lit
	}
	name := string(rune('p' + e.n))
	e.n++
	e.all[name] = v
	if mode == 1 {
		e.red[name] = v
	} else {
		e.rest[name] = v
	}
	return &VarRef{Val: name}
}

// operator classes of the property statement
func c09NumericArith(t Token) bool {
	return vfOr(vfOr(vfOr(t == ADD, t == SUB), vfOr(t == MUL, t == DIV)), t == MOD)
}
func c09Bitwise(t Token) bool {
	return vfOr(t == BITWISE_AND, vfOr(t == BITWISE_OR, t == BITWISE_XOR))
}
func c09Ordering(t Token) bool {
	return vfOr(vfOr(t == LT, t == LTE), vfOr(t == GT, t == GTE))
}
func c09Equality(t Token) bool { return vfOr(t == EQ, t == NEQ) }

// c09OpFor returns a symbolic operator that is well-typed for the operand kinds;
// the second result tells whether the result is boolean.
func c09OpFor(lk, rk int, wantBool bool) Token {
	t := Token(vfInt())
	lb, rb := lk == c09Bool, rk == c09Bool
	if lb && rb {
		// boolean operators on booleans (and equality on like kinds)
		vfAssume(vfOr(vfOr(t == AND, t == OR), c09Equality(t)))
		return t
	}
	if wantBool {
		vfAssume(vfOr(c09Ordering(t), c09Equality(t)))
		return t
	}
	if lk == c09Float || rk == c09Float {
		vfAssume(c09NumericArith(t))
		return t
	}
	vfAssume(vfOr(c09NumericArith(t), c09Bitwise(t)))
	return t
}

func c09Same(a, b interface{}) bool { return vfDeepEqual(a, b) }

func c09Check(e *c09Env, expr Expr, label string) {
	vfNativeNote(func() string {
		return expr.String() + " reduce-with=" + fmtMap(e.red) + " eval-with=" + fmtMap(e.rest)
	})
	direct := (&ValuerEval{Valuer: MapValuer(e.all), IntegerFloatDivision: true}).Eval(expr)
	reduced := Reduce(expr, MapValuer(e.red))
	after := (&ValuerEval{Valuer: MapValuer(e.rest), IntegerFloatDivision: true}).Eval(reduced)
	vfAssert(c09Same(direct, after), "C09/"+label+"/reduce-then-eval-equals-eval")
	again := Reduce(reduced, MapValuer(e.red))
	vfAssert(vfDeepEqual(again, reduced), "C09/"+label+"/reduce-is-idempotent")
}

func c09NewEnv() *c09Env {
	return &c09Env{red: map[string]interface{}{}, rest: map[string]interface{}{}, all: map[string]interface{}{}}
}

// one binary node: every operator x every pair of operand kinds x every binding split
func vfH_C09_binary(tier int) {
	e := c09NewEnv()
	lk, rk := vfChoice(4), vfChoice(4)
	if (lk == c09Bool) != (rk == c09Bool) {
		return // not well-typed
	}
	wantBool := vfChoice(2) == 1
	l := e.leaf(lk, vfChoice(3))
	r := e.leaf(rk, vfChoice(3))
	op := c09OpFor(lk, rk, wantBool)
	var expr Expr = &BinaryExpr{Op: op, LHS: l, RHS: r}
	if vfChoice(2) == 1 {
		expr = &ParenExpr{Expr: expr}
	}
	c09Check(e, expr, "binary")
	vfReach("C09_binary/ok")
}

// two binary nodes: (x op1 y) op2 z and x op1 (y op2 z), numeric inner, numeric or boolean outer,
// and boolean combinations of two comparisons
func vfH_C09_nested(tier int) {
	e := c09NewEnv()
	shape := vfChoice(3)
	kinds := []int{c09Int, c09Uint, c09Float}
	// orthogonal array L9: every pair of (position, level) combinations occurs (pairwise cover of 3 factors x 3 levels)
	l9 := [][3]int{{0, 0, 0}, {0, 1, 1}, {0, 2, 2}, {1, 0, 1}, {1, 1, 2}, {1, 2, 0}, {2, 0, 2}, {2, 1, 0}, {2, 2, 1}}
	kr := l9[vfChoice(9)]
	// binding splits: literal/reduce/eval mixes (three rows in the quick tier, the full array otherwise)
	mr := [][3]int{{0, 1, 2}, {1, 2, 0}, {2, 0, 1}}[vfChoice(3)]
	if tier > 0 {
		kr = [3]int{vfChoice(3), vfChoice(3), vfChoice(3)}
		mr = l9[vfChoice(9)]
	}
	k1, k2, k3 := kinds[kr[0]], kinds[kr[1]], kinds[kr[2]]
	m1, m2, m3 := mr[0], mr[1], mr[2]
	x, y, z := e.leaf(k1, m1), e.leaf(k2, m2), e.leaf(k3, m3)
	paren := vfChoice(2) == 1
	wrap := func(b Expr) Expr {
		if paren {
			return &ParenExpr{Expr: b}
		}
		return b
	}
	innerFloat := func(a, b int) int {
		if a == c09Float || b == c09Float {
			return c09Float
		}
		if a == c09Uint || b == c09Uint {
			return c09Uint
		}
		return c09Int
	}
	var expr Expr
	switch shape {
	case 0: // (x op1 y) op2 z
		op1 := c09OpFor(k1, k2, false)
		ik := innerFloat(k1, k2)
		op2 := c09OpFor(ik, k3, vfChoice(2) == 1)
		expr = &BinaryExpr{Op: op2, LHS: wrap(&BinaryExpr{Op: op1, LHS: x, RHS: y}), RHS: z}
	case 1: // x op1 (y op2 z)
		op2 := c09OpFor(k2, k3, false)
		ik := innerFloat(k2, k3)
		op1 := c09OpFor(k1, ik, vfChoice(2) == 1)
		expr = &BinaryExpr{Op: op1, LHS: x, RHS: wrap(&BinaryExpr{Op: op2, LHS: y, RHS: z})}
	default: // (x cmp y) AND/OR (y' cmp z) with a boolean variable or literal on one side
		c1 := c09OpFor(k1, k2, true)
		b := e.leaf(c09Bool, m3)
		t := Token(vfInt())
		vfAssume(vfOr(t == AND, t == OR))
		if vfChoice(2) == 0 {
			expr = &BinaryExpr{Op: t, LHS: wrap(&BinaryExpr{Op: c1, LHS: x, RHS: y}), RHS: b}
		} else {
			expr = &BinaryExpr{Op: t, LHS: b, RHS: wrap(&BinaryExpr{Op: c1, LHS: x, RHS: y})}
		}
	}
	c09Check(e, expr, "nested")
	vfReach("C09_nested/ok")
}

func fmtMap(m map[string]interface{}) string {
	out := "{"
	for _, k := range []string{"p", "q", "r", "s"} {
		if v, ok := m[k]; ok {
			out += k + ":" + fmtAny(v) + " "
		}
	}
	return out + "}"
}
