package influxql

import "time"

// C14 — clones are faithful and independent; derived operations leave the receiver alone.

// a schema for RewriteFields
type c14Mapper struct{}

func (c14Mapper) FieldDimensions(m *Measurement) (map[string]DataType, map[string]struct{}, error) {
	return map[string]DataType{"f": Float, "i": Integer}, map[string]struct{}{"t": {}}, nil
}
func (c14Mapper) MapType(m *Measurement, field string) DataType {
	switch field {
	case "f":
		return Float
	case "i":
		return Integer
	case "t":
		return Tag
	}
	return Unknown
}

func c14Select(tier int) *SelectStatement {
	g := &vfGen{tier: 0, budget: 1, sub: 1 + tier} // thorough: two nested levels; names as in quick
	genSelect(g)
	text := g.text()
	vfNote(text)
	stmt, err := ParseStatement(text)
	if err != nil {
		return nil
	}
	sel, ok := stmt.(*SelectStatement)
	if !ok {
		return nil
	}
	// fields the parser never sets must be preserved as well
	sel.OmitTime = vfBool()
	sel.StripName = vfBool()
	sel.Dedupe = vfBool()
	sel.EmitName = string([]byte{vfLower()})
	sel.TimeAlias = string([]byte{vfLower()})
	return sel
}

func vfH_C14_clone(tier int) {
	sel := c14Select(tier)
	if sel == nil {
		return
	}
	clone := sel.Clone()
	vfAssert(vfDeepEqual(sel, clone), "C14/clone-is-structurally-identical")
	vfAssert(vfDisjoint(sel, clone), "C14/clone-shares-no-mutable-node")
	if sel.Condition != nil {
		ce := CloneExpr(sel.Condition)
		vfAssert(vfDeepEqual(sel.Condition, ce), "C14/cloneexpr-is-structurally-identical")
		vfAssert(vfDisjoint(sel.Condition, ce), "C14/cloneexpr-shares-no-mutable-node")
	}
	for _, f := range sel.Fields {
		ce := CloneExpr(f.Expr)
		vfAssert(vfDeepEqual(f.Expr, ce), "C14/cloneexpr-is-structurally-identical")
		vfAssert(vfDisjoint(f.Expr, ce), "C14/cloneexpr-shares-no-mutable-node")
	}
	vfReach("C14_clone/ok")
}

// derived operations are read-only on their receiver
func vfH_C14_readonly(tier int) {
	sel := c14Select(tier)
	if sel == nil {
		return
	}
	valuer := &NowValuer{Now: time.Unix(0, 1000)}
	op := vfChoice(8)
	names := []string{"Reduce-statement", "Reduce-condition", "RewriteFields", "String", "ColumnNames", "RequiredPrivileges", "Eval", "Clone"}
	vfFreeze(sel)
	panicked, _ := vfCatch(func() {
		switch op {
		case 0:
			sel.Reduce(valuer)
		case 1:
			Reduce(sel.Condition, valuer)
		case 2:
			sel.RewriteFields(c14Mapper{})
		case 3:
			_ = sel.String()
		case 4:
			sel.ColumnNames()
		case 5:
			sel.RequiredPrivileges()
		case 6:
			EvalBool(sel.Condition, map[string]interface{}{"a": int64(1), "b": "x"})
		default:
			sel.Clone()
		}
	})
	n := vfFrozenWrites()
	if panicked {
		vfReach("C14_readonly/panicked") // totality is C13's subject
		return
	}
	vfAssert(n == 0, "C14/"+names[op]+"-leaves-the-receiver-unchanged")
	vfReach("C14_readonly/ok")
}
