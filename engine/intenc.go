package main

// INT encoding: machine integers as mathematical integers in [0, 2^w) with an
// explicit "mod 2^w" after every operation that can wrap. Decides
// multiply/divide-by-large-constant kernels that bit-blasting does not.
// Wrapping semantics are preserved; bitwise operators other than masks and
// constant shifts are not expressible here and make a query fall back to BV.

import (
	"fmt"
	"math/big"
	"strings"
)

func pow2(w int) string {
	return new(big.Int).Lsh(big.NewInt(1), uint(w)).String()
}

const intPrelude = `(define-fun tdiv ((a Int) (b Int)) Int (ite (>= a 0) (ite (> b 0) (div a b) (- (div a (- b)))) (ite (> b 0) (- (div (- a) b)) (div (- a) (- b)))))
(define-fun trem ((a Int) (b Int)) Int (- a (* b (tdiv a b))))`

func (s *Solver) iref(t *Term) string {
	if t.Op == OConst && t.S.K == KBV {
		return fmt.Sprintf("%d", t.C)
	}
	return t.ref()
}

func sgn(x string, w int) string {
	return fmt.Sprintf("(ite (>= %s %s) (- %s %s) %s)", x, pow2(w-1), x, pow2(w), x)
}

// sref is the signed view of a BV term: a literal for constants, the
// auxiliary definition s<ID> otherwise (emitted by define in INT mode).
func (s *Solver) sref(t *Term) string {
	if t.Op == OConst {
		v := t.Int()
		if v < 0 {
			return fmt.Sprintf("(- %d)", uint64(-v))
		}
		return fmt.Sprintf("%d", v)
	}
	if t.Op == OVar {
		return "s_" + t.Name
	}
	return fmt.Sprintf("s%d", t.ID)
}

func (s *Solver) signedDef(t *Term) string {
	name := s.sref(t)
	return fmt.Sprintf("(define-fun %s () Int %s)", name, sgn(s.iref(t), int(t.S.W)))
}

func isPow2Mask(c uint64) (int, bool) {
	// c == 2^k - 1
	if c&(c+1) != 0 {
		return 0, false
	}
	k := 0
	for c != 0 {
		k++
		c >>= 1
	}
	return k, true
}

// intBody renders the definition body of t in the INT encoding.
func (s *Solver) intBody(t *Term) (string, bool) {
	w := int(t.S.W)
	M := pow2(w)
	a := func(i int) string { return s.iref(t.A[i]) }
	_ = w
	switch t.Op {
	case ONot, OAnd, OOr:
		return t.body(), true
	case OIte:
		return fmt.Sprintf("(ite %s %s %s)", a(0), a(1), a(2)), true
	case OEq:
		if t.A[0].S.K == KFP {
			return "", false
		}
		return fmt.Sprintf("(= %s %s)", a(0), a(1)), true
	case OAdd:
		if s.hiOf(t.A[0])+s.hiOf(t.A[1]) < float64Pow2(w) {
			return fmt.Sprintf("(+ %s %s)", a(0), a(1)), true // cannot wrap
		}
		return fmt.Sprintf("(mod (+ %s %s) %s)", a(0), a(1), M), true
	case OSub:
		return fmt.Sprintf("(mod (- %s %s) %s)", a(0), a(1), M), true
	case OMul:
		if s.hiOf(t.A[0])*s.hiOf(t.A[1]) < float64Pow2(w) {
			return fmt.Sprintf("(* %s %s)", a(0), a(1)), true // cannot wrap
		}
		return fmt.Sprintf("(mod (* %s %s) %s)", a(0), a(1), M), true
	case ONeg:
		return fmt.Sprintf("(mod (- %s) %s)", a(0), M), true
	case OBNot:
		return fmt.Sprintf("(- %s 1 %s)", M, a(0)), true
	case OUDiv:
		if t.A[1].IsConst() && t.A[1].C != 0 {
			return fmt.Sprintf("(div %s %s)", a(0), a(1)), true
		}
		return fmt.Sprintf("(ite (= %s 0) (- %s 1) (div %s %s))", a(1), M, a(0), a(1)), true
	case OURem:
		if t.A[1].IsConst() && t.A[1].C != 0 {
			return fmt.Sprintf("(mod %s %s)", a(0), a(1)), true
		}
		return fmt.Sprintf("(ite (= %s 0) %s (mod %s %s))", a(1), a(0), a(0), a(1)), true
	case OSDiv:
		x, y := s.sref(t.A[0]), s.sref(t.A[1])
		if t.A[1].IsConst() && t.A[1].Int() > 0 {
			return fmt.Sprintf("(mod (ite (>= %s 0) (div %s %s) (- (div (- %s) %s))) %s)", x, x, y, x, y, M), true
		}
		return fmt.Sprintf("(mod (ite (= %s 0) (ite (< %s 0) 1 (- 1)) (tdiv %s %s)) %s)", a(1), x, x, y, M), true
	case OSRem:
		x, y := s.sref(t.A[0]), s.sref(t.A[1])
		if t.A[1].IsConst() && t.A[1].Int() > 0 {
			// truncated remainder has the sign of the dividend
			return fmt.Sprintf("(mod (ite (>= %s 0) (mod %s %s) (- (mod (- %s) %s))) %s)", x, x, y, x, y, M), true
		}
		return fmt.Sprintf("(mod (ite (= %s 0) %s (trem %s %s)) %s)", a(1), x, x, y, M), true
	case OUlt:
		return fmt.Sprintf("(< %s %s)", a(0), a(1)), true
	case OUle:
		return fmt.Sprintf("(<= %s %s)", a(0), a(1)), true
	case OSlt:
		return fmt.Sprintf("(< %s %s)", s.sref(t.A[0]), s.sref(t.A[1])), true
	case OSle:
		return fmt.Sprintf("(<= %s %s)", s.sref(t.A[0]), s.sref(t.A[1])), true
	case OZExt:
		return a(0), true
	case OSExt:
		return fmt.Sprintf("(mod %s %s)", s.sref(t.A[0]), M), true
	case OExtract:
		return fmt.Sprintf("(mod (div %s %s) %s)", a(0), pow2(t.I2), pow2(t.I1-t.I2+1)), true
	case OShl:
		if t.A[1].IsConst() {
			k := t.A[1].C
			if k >= uint64(w) {
				return "0", true
			}
			return fmt.Sprintf("(mod (* %s %s) %s)", a(0), pow2(int(k)), M), true
		}
	case OLShr:
		if t.A[1].IsConst() {
			k := t.A[1].C
			if k >= uint64(w) {
				return "0", true
			}
			return fmt.Sprintf("(div %s %s)", a(0), pow2(int(k))), true
		}
	case OAShr:
		if t.A[1].IsConst() {
			k := t.A[1].C
			if k >= uint64(w) {
				k = uint64(w - 1)
			}
			return fmt.Sprintf("(mod (div %s %s) %s)", s.sref(t.A[0]), pow2(int(k)), M), true
		}
	case OBAnd:
		for i := 0; i < 2; i++ {
			if t.A[i].IsConst() {
				if k, ok := isPow2Mask(t.A[i].C); ok {
					return fmt.Sprintf("(mod %s %s)", a(1-i), pow2(k)), true
				}
			}
		}
	}
	return "", false
}

// intEncodable reports whether every term below t can be INT-encoded.
func (s *Solver) intEncodable(t *Term) bool {
	if t.Op == OConst {
		return t.S.K != KFP
	}
	if v, ok := s.intOK[t.ID]; ok {
		return v
	}
	ok := true
	if t.Op == OVar {
		ok = t.S.K != KFP
	} else {
		if _, good := s.intBody(t); !good {
			ok = false
		}
		for i := 0; ok && i < int(t.N); i++ {
			if !s.intEncodable(t.A[i]) {
				ok = false
			}
		}
	}
	s.intOK[t.ID] = ok
	return ok
}

func (s *Solver) intDeclare(u *Term) []string {
	if u.S.K == KBool {
		return []string{fmt.Sprintf("(declare-const %s Bool)", u.Name)}
	}
	return []string{
		fmt.Sprintf("(declare-const %s Int)", u.Name),
		fmt.Sprintf("(assert (and (<= 0 %s) (< %s %s)))", u.Name, u.Name, pow2(int(u.S.W))),
		s.signedDef(u),
	}
}

func intSortOf(t *Term) string {
	if t.S.K == KBool {
		return "Bool"
	}
	return "Int"
}

var _ = strings.Join

func float64Pow2(w int) float64 {
	r := 1.0
	for i := 0; i < w; i++ {
		r *= 2
	}
	return r * 0.999999 // safety margin for floating-point rounding of the bound
}

// hiOf is a static upper bound of the unsigned value of t (independent of any
// path condition), used to drop "mod 2^w" where an operation cannot wrap.
func (s *Solver) hiOf(t *Term) float64 {
	if t.S.K != KBV {
		return 1
	}
	if t.Op == OConst {
		return float64(t.C)
	}
	if v, ok := s.hiMemo[t.ID]; ok {
		return v
	}
	full := float64Pow2(int(t.S.W)) / 0.999999
	r := full
	switch t.Op {
	case OZExt:
		r = s.hiOf(t.A[0])
	case OAdd:
		r = s.hiOf(t.A[0]) + s.hiOf(t.A[1])
	case OMul:
		r = s.hiOf(t.A[0]) * s.hiOf(t.A[1])
	case OIte:
		r = s.hiOf(t.A[1])
		if x := s.hiOf(t.A[2]); x > r {
			r = x
		}
	case OURem:
		if t.A[1].IsConst() && t.A[1].C != 0 {
			r = float64(t.A[1].C - 1)
		}
	case OUDiv:
		r = s.hiOf(t.A[0])
	case OBAnd:
		r = s.hiOf(t.A[0])
		if x := s.hiOf(t.A[1]); x < r {
			r = x
		}
	case OExtract:
		if x := s.hiOf(t.A[0]); t.I2 == 0 && x < float64Pow2(t.I1-t.I2+1) {
			r = x
		}
	}
	if r > full {
		r = full
	}
	s.hiMemo[t.ID] = r
	return r
}
