#!/usr/bin/env python3
"""Regenerates /verif/MANIFEST.json from the table below (kept valid at all times)."""
import json

TRUST = ("Trusted base: the symgo interpreter (validated on every run by replaying sampled paths natively and comparing "
         "observable results), the library models listed in evidence coverage.stubs_used, z3 4.8.12 / z3-new 5.1.0 / cvc5 1.0.3. "
         "Bounded: string lengths, slice lengths and heap shapes are concrete per path and enumerated by the harness; "
         "everything inside a shape (bytes, runes, digits, integers, case bits) is a solver variable. Outside the stated bounds nothing is claimed.")

CHECKS = {
 "C05": dict(level="model_checking", technique="bounded symbolic execution of the real scanner (go/ssa interpreter + SMT path feasibility), measured token extents vs. reference line/column model",
   text="Every text of up to 3 (quick) / 4 (thorough) characters, each character ANY Unicode scalar value except NUL (solver variable), is scanned by the real Scanner over a counting rune source; on every feasible path the assertions (termination with sticky EOF, progress, push-back within the ring, position == reference line/column with CRLF / lone CR folded, literal == extent for WS/INTEGER/DURATIONVAL/bare IDENT) are decided by the path condition. Exhaustive over path classes within the bound.",
   note="NUL is excluded (it is the scanner's in-band EOF marker). Two genuine position defects are pinned by existing tests and listed in known_findings.json. "+TRUST, ref="DESIGN.md section 4 C05"),
 "C06": dict(level="model_checking", technique="bounded symbolic execution: QuoteString/QuoteIdent/IdentNeedsQuotes composed with the real scanner/parser over symbolic strings",
   text="For every string of up to 3 (quick) / 4 (thorough) characters, each a symbolic ASCII byte (any value but NUL and CR) or one of the sample multi-byte characters: QuoteString(s) and QuoteIdent(s) scan as exactly one STRING / IDENT with value s followed by EOF; IdentNeedsQuotes(s) is false iff s scans bare as that identifier; two- and three-part names (empty middle part included) parse back to the same Measurement.",
   note="Non-ASCII characters come from a sample list (2-, 3-, 4-byte and the two runes with ASCII lower-case forms), not from the solver. Invalid UTF-8 and the in-statement embedding clause are not covered yet. "+TRUST, ref="DESIGN.md section 4 C06"),
 "C08": dict(level="model_checking", technique="bounded symbolic execution with integer (mod 2^64) SMT encoding; skolemised decimal rendering; exact-sum oracle",
   text="ParseDuration on every spelling [-](digits unit)+ with 1..2 components (3 thorough), every digit a solver variable (1..20 digits, i.e. every 64-bit magnitude and beyond) and every unit: accepted => value equals the exact sum computed with overflow flags. FormatDuration on an arbitrary int64: sign, unit is the largest dividing one, number is d/unit, and ParseDuration(FormatDuration(d)) == d for all d != MinInt64 (19 digit-count classes x 8 units x sign, each decided for all values).",
   note="Value-unbounded within the shape bounds. Multiply/divide by the unit constants is decided in the INT encoding (mathematical integers with explicit mod 2^64) by z3-new with cvc5 fallback and cvc5 cross-check. Arbitrary malformed strings and duration literals inside statements are not covered yet. "+TRUST, ref="DESIGN.md section 4 C08"),
}

NA_REASON = "check not built yet (engine under construction; see DESIGN.md section 4)"

def main():
    ids=[json.loads(l)['id'] for l in open('/verif/properties.jsonl')]
    checks=[]
    for pid in ids:
        c=CHECKS.get(pid)
        if not c: continue
        checks.append({
            "property_id": pid,
            "quick_cmd": f"/verif/check {pid} quick",
            "thorough_cmd": f"/verif/check {pid} thorough",
            "evidence_file": f"/verif/evidence/{pid}.json",
            "replay_cmd_template": "/verif/bin/symgo replay {path}",
            "engine": "symgo",
            "level_claimed": {"category": c["level"], "text": c["text"], "design_ref": c["ref"]},
            "level_note": c["note"],
            "technique": c["technique"],
        })
    m={"version":1,
       "setup_cmd":"make -C /verif setup",
       "hooks":{"guard":"verif","enable":"checks load /repo with build tag verif and inject /verif/harness/*.go into package influxql through a go/packages overlay (zz_verif_*.go); nothing is written to /repo and no hook commit exists",
                "baseline_off_cmd":"cd /repo && go test -vet=off -count=1 ./...","source_commits":[],"add_only":True},
       "engines":[{"name":"symgo","path":"/verif/engine","serves_properties":[c["property_id"] for c in checks],
                   "kind_free_text":"symbolic interpreter for go/ssa written for this task (terms, path exploration by re-execution, library models) + SMT back ends (z3, z3-new, cvc5; BV and INT encodings) + native counterexample replay via go test -overlay"}],
       "checks":checks,
       "not_applicable":[{"property_id":i,"reason":NA.get(i,NA_REASON)} for i in ids if i not in CHECKS],
       "notes":"Every check regenerates its encoding from /repo's current working tree (go/packages + go/ssa on each run). Exit 0 = held on everything explored; exit 1 + VIOLATION line = counterexample reproduced natively; exit 2 = inconclusive (unsupported construct, solver unknown, budget) or engine/native mismatch, never reported as a pass."}
    json.dump(m,open('/verif/MANIFEST.json','w'),indent=1)

NA = {}
if __name__=="__main__":
    main()
