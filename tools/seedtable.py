#!/usr/bin/env python3
# prints the DESIGN.md section 13 table from /verif/seeded/*/meta.json
import json, glob, os, re
rows = []
for d in sorted(glob.glob('/verif/seeded/C*-*')):
    try:
        m = json.load(open(d + '/meta.json'))
    except Exception:
        continue
    name = os.path.basename(d)
    summ = re.sub(r'\s+', ' ', m.get('summary', ''))[:230].replace('|', '\\|')
    chk = m.get('check', {})
    by = '; '.join(sorted(set(x.split(': ', 1)[1] if ': ' in x else x for x in m.get('caught_by', [])))[:2])[:150].replace('|', '\\|')
    if m.get('caught'):
        res = 'caught (%d s)' % chk.get('wall_s', 0)
    elif chk.get('exit') == 2:
        res = '**not caught** (inconclusive, exit 2)'
    else:
        res = '**not caught** (exit %s)' % chk.get('exit')
    rows.append('| %s | %s | %s | %s |' % (name, summ, res, by))
print('| change | what it does | quick check of its property | first failing assertion(s) |')
print('|---|---|---|---|')
print('\n'.join(rows))
