export GOFLAGS=-mod=mod
export GOPROXY=off
export GOSUMDB=off
export GOTOOLCHAIN=local

setup: bin/symgo

bin/symgo: $(wildcard engine/*.go) engine/go.mod
	mkdir -p bin .work
	cd engine && go build -o ../bin/symgo .

.PHONY: setup
