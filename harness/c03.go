package influxql

import "strings"

// C03 — binary operators group by precedence and associate to the left.
//
// Operator tokens are solver variables: the expression text carries `$oN`
// placeholders and the parser is given parameter values whose token type is a
// symbolic Token, so the real ParseExpr loop runs on symbolic operators.

type c03Tok struct{ t Token }

func (c c03Tok) TokenType() Token { return c.t }
func (c c03Tok) Value() string    { return "" }

// the five levels as the property states them (not taken from the code)
func c03Level(t Token) int {
	switch t {
	case MUL, DIV, MOD, BITWISE_AND:
		return 5
	case ADD, SUB, BITWISE_OR, BITWISE_XOR:
		return 4
	case EQ, NEQ, EQREGEX, NEQREGEX, LT, LTE, GT, GTE:
		return 3
	case AND:
		return 2
	case OR:
		return 1
	}
	return 0
}

// reference grouping: split at the rightmost operator of the lowest level
func c03Ref(xs []Expr, ops []Token, lv []int) Expr {
	if len(xs) == 1 {
		return xs[0]
	}
	best := 0
	for i := 1; i < len(ops); i++ {
		if lv[i] <= lv[best] {
			best = i
		}
	}
	return &BinaryExpr{Op: ops[best], LHS: c03Ref(xs[:best+1], ops[:best], lv[:best]), RHS: c03Ref(xs[best+1:], ops[best+1:], lv[best+1:])}
}

func c03Op(regex bool) Token {
	t := Token(vfInt())
	vfAssume(t > operatorBeg)
	vfAssume(t < operatorEnd)
	isRe := vfOr(t == EQREGEX, t == NEQREGEX)
	vfAssume(isRe == regex)
	return t
}

var c03Names = []string{"a", "b", "c", "d", "e", "f", "g"}

func c03Chain(k int, special int, specialPos int, tier int, reparse bool) {
	params := map[string]Value{}
	var sb strings.Builder
	var xs []Expr
	var ops []Token
	np := 0
	newOp := func(regex bool) (string, Token) {
		t := c03Op(regex)
		name := "o" + string(rune('0'+np))
		np++
		params[name] = c03Tok{t}
		return "$" + name, t
	}
	for i := 0; i < k; i++ {
		if i > 0 {
			regex := special == 3 && specialPos == i
			ph, t := newOp(regex)
			sb.WriteString(" " + ph + " ")
			ops = append(ops, t)
			if regex {
				sb.WriteString("/r/")
				re, _ := ParseExpr("x =~ /r/")
				xs = append(xs, re.(*BinaryExpr).RHS)
				continue
			}
		}
		n := c03Names[i]
		switch {
		case special == 1 && specialPos == i: // negated operand
			sb.WriteString("-" + n)
			xs = append(xs, &BinaryExpr{Op: MUL, LHS: &IntegerLiteral{Val: -1}, RHS: &VarRef{Val: n}})
		case special == 4 && specialPos == i: // negated call
			sb.WriteString("-f(" + n + ")")
			xs = append(xs, &BinaryExpr{Op: MUL, LHS: &IntegerLiteral{Val: -1}, RHS: &Call{Name: "f", Args: []Expr{&VarRef{Val: n}}}})
		case special == 5 && specialPos == i: // negated parenthesised sub-chain
			ph, t := newOp(false)
			sb.WriteString("-(" + n + " " + ph + " z)")
			xs = append(xs, &BinaryExpr{Op: MUL, LHS: &IntegerLiteral{Val: -1}, RHS: &ParenExpr{Expr: &BinaryExpr{Op: t, LHS: &VarRef{Val: n}, RHS: &VarRef{Val: "z"}}}})
		case special == 2 && specialPos == i: // parenthesised sub-chain with its own symbolic operator
			ph, t := newOp(false)
			sb.WriteString("(" + n + " " + ph + " z)")
			xs = append(xs, &ParenExpr{Expr: &BinaryExpr{Op: t, LHS: &VarRef{Val: n}, RHS: &VarRef{Val: "z"}}})
		case special == 6 && specialPos == i: // doubly parenthesised sub-chain: every pair is its own node
			ph, t := newOp(false)
			sb.WriteString("((" + n + " " + ph + " z))")
			xs = append(xs, &ParenExpr{Expr: &ParenExpr{Expr: &BinaryExpr{Op: t, LHS: &VarRef{Val: n}, RHS: &VarRef{Val: "z"}}}})
		case special == 7 && specialPos == i: // doubly parenthesised lone operand
			sb.WriteString("((" + n + "))")
			xs = append(xs, &ParenExpr{Expr: &ParenExpr{Expr: &VarRef{Val: n}}})
		default:
			sb.WriteString(n)
			xs = append(xs, &VarRef{Val: n})
		}
	}
	text := sb.String()
	p := NewParser(strings.NewReader(text))
	p.params = params
	got, err := p.ParseExpr()
	vfAssert(err == nil, "C03/chain-is-accepted")
	if err != nil {
		return
	}
	lv := make([]int, len(ops))
	for i, t := range ops {
		lv[i] = c03Level(t)
	}
	want := c03Ref(xs, ops, lv)
	vfNote(text)
	vfAssert(vfDeepEqual(got, want), "C03/grouping-follows-the-five-levels-left-associative")
	vfReach("C03_chain/grouped")
	if !reparse {
		return
	}
	// printing and parsing again gives the same grouping
	printed := got.String()
	vfNote(printed)
	again, err := ParseExpr(printed)
	vfAssert(err == nil, "C03/printed-expression-is-accepted")
	if err != nil {
		return
	}
	vfAssert(vfDeepEqual(again, got), "C03/printed-expression-keeps-the-grouping")
	vfReach("C03_chain/reparsed")
}

func vfH_C03_chain(tier int) {
	maxK := 4
	if tier > 0 {
		maxK = 5
	}
	k := 2 + vfChoice(maxK-1)
	special := vfChoice(8) // 6 doubly parenthesised sub-chain, 7 parenthesised lone operands; 0 plain, 1 negated operand, 2 parenthesised sub-chain, 3 regex operator, 4 negated call, 5 negated parenthesised sub-chain
	pos := 0
	if special != 0 {
		if special == 3 {
			pos = 1 + vfChoice(k-1)
		} else {
			pos = vfChoice(k)
		}
	}
	reparse := k <= 3
	if tier > 0 {
		reparse = k <= 4
	}
	c03Chain(k, special, pos, tier, reparse)
}
