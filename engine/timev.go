package main

// time.Time model. A value is either a concrete native time.Time, or a
// symbolic instant. Symbolic instants are exact 72-bit integers counting
// nanoseconds since the Unix epoch: T = Hi*2^64 + Lo with Lo an unsigned
// 64-bit term and Hi a signed 8-bit term, so Add never loses information and
// UnixNano() is the low word (which is what the Go runtime computes, wrapping
// included). The wall-clock location of a symbolic instant is not modelled
// (Format and friends are concrete-only).

import (
	"fmt"
	"go/types"
	"math/big"
	"time"

	"golang.org/x/tools/go/ssa"
)

type TimeV struct {
	T   time.Time
	Sym *Term // Lo (64-bit); nil for concrete values
	Hi  *Term // 8-bit signed high part
	Set bool
}

func (in *Interp) timeNative(t TimeV, what string) time.Time {
	if t.Sym != nil {
		if t.Sym.IsConst() && t.Hi.IsConst() {
			hi := t.Hi.Int()
			if (hi == 0 && int64(t.Sym.C) >= 0) || (hi == -1 && int64(t.Sym.C) < 0) {
				return time.Unix(0, int64(t.Sym.C))
			}
		}
		in.unsupported("symbolic time passed to %s", what)
	}
	return t.T
}

var big2_64 = new(big.Int).Lsh(big.NewInt(1), 64)

// parts returns (Hi, Lo) of any time value.
func (in *Interp) timeParts(t TimeV) (*Term, *Term) {
	if t.Sym != nil {
		return t.Hi, t.Sym
	}
	// exact nanoseconds since the epoch as a big integer
	sec := big.NewInt(t.T.Unix())
	ns := new(big.Int).Mul(sec, big.NewInt(1000000000))
	ns.Add(ns, big.NewInt(int64(t.T.Nanosecond())))
	// floor division by 2^64
	hi := new(big.Int)
	lo := new(big.Int)
	hi.DivMod(ns, big2_64, lo) // Euclidean: lo >= 0
	return in.ts.BV(8, uint64(hi.Int64())), in.ts.BV(64, lo.Uint64())
}

func (in *Interp) timeFromInt64(n *Term) TimeV {
	ts := in.ts
	hi := ts.Ite(ts.Cmp(OSlt, n, ts.BV(64, 0)), ts.BV(8, 0xff), ts.BV(8, 0))
	return TimeV{Sym: n, Hi: hi, Set: true}
}

func (in *Interp) timeStructEq(a, b TimeV) *Term {
	if a.Sym == nil && b.Sym == nil {
		return in.ts.Bool(a.T == b.T)
	}
	_, eq := in.cmpTimes(a, b)
	return eq
}

// cmpTimes returns terms (a<b, a==b).
func (in *Interp) cmpTimes(a, b TimeV) (*Term, *Term) {
	ts := in.ts
	if a.Sym == nil && b.Sym == nil {
		return ts.Bool(a.T.Before(b.T)), ts.Bool(a.T.Equal(b.T))
	}
	ha, la := in.timeParts(a)
	hb, lb := in.timeParts(b)
	eq := ts.And(ts.Eq(ha, hb), ts.Eq(la, lb))
	lt := ts.Or(ts.Cmp(OSlt, ha, hb), ts.And(ts.Eq(ha, hb), ts.Cmp(OUlt, la, lb)))
	return lt, eq
}

// timeAdd adds a signed 64-bit duration term.
func (in *Interp) timeAdd(t TimeV, d *Term) TimeV {
	ts := in.ts
	h, l := in.timeParts(t)
	l2 := ts.Bin(OAdd, l, d)
	carry := ts.Ite(ts.Cmp(OUlt, l2, l), ts.BV(8, 1), ts.BV(8, 0))
	dh := ts.Ite(ts.Cmp(OSlt, d, ts.BV(64, 0)), ts.BV(8, 0xff), ts.BV(8, 0))
	h2 := ts.Bin(OAdd, ts.Bin(OAdd, h, dh), carry)
	return TimeV{Sym: l2, Hi: h2, Set: true}
}

func (in *Interp) registerTime(reg func(string, extFn)) {
	ts := in.ts
	tv := func(v Value) TimeV { return v.(TimeV) }
	reg("time.Unix", func(in *Interp, fr *frame, fn *ssa.Function, args []Value) Value {
		sec, nsec := args[0].(*Term), args[1].(*Term)
		if sec.IsConst() && nsec.IsConst() {
			return TimeV{T: time.Unix(sec.Int(), nsec.Int()), Set: true}
		}
		if sec.IsConst() && sec.C == 0 {
			return in.timeFromInt64(nsec)
		}
		// symbolic seconds: exact while sec*1e9+nsec fits 64 bits (years 1678..2262); the rest is outside the model
		k := func(v int64) *Term { return ts.BV(64, uint64(v)) }
		inRange := ts.AndN(ts.Cmp(OSle, k(-9223372034), sec), ts.Cmp(OSle, sec, k(9223372034)),
			ts.Cmp(OSle, k(-1999999999), nsec), ts.Cmp(OSle, nsec, k(1999999999)))
		if !in.branch(inRange, nil) {
			in.unsupported("time.Unix with symbolic seconds outside the 64-bit nanosecond range")
		}
		return in.timeFromInt64(ts.Bin(OAdd, ts.Bin(OMul, sec, k(1000000000)), nsec))
	})
	reg("(time.Time).UnixNano", func(in *Interp, fr *frame, fn *ssa.Function, args []Value) Value {
		t := tv(args[0])
		if t.Sym != nil {
			return t.Sym
		}
		return in.mkInt(t.T.UnixNano())
	})
	reg("(time.Time).Unix", func(in *Interp, fr *frame, fn *ssa.Function, args []Value) Value {
		return in.mkInt(in.timeNative(tv(args[0]), "Time.Unix").Unix())
	})
	reg("(time.Time).IsZero", func(in *Interp, fr *frame, fn *ssa.Function, args []Value) Value {
		t := tv(args[0])
		if t.Sym != nil {
			_, eq := in.cmpTimes(t, TimeV{})
			return eq
		}
		return ts.Bool(t.T.IsZero())
	})
	reg("(time.Time).UTC", func(in *Interp, fr *frame, fn *ssa.Function, args []Value) Value {
		t := tv(args[0])
		if t.Sym != nil {
			return t
		}
		return TimeV{T: t.T.UTC(), Set: true}
	})
	reg("(time.Time).In", func(in *Interp, fr *frame, fn *ssa.Function, args []Value) Value {
		t := tv(args[0])
		loc := in.locationOf(args[1])
		if loc == nil {
			in.goPanic(fr, Str{S: "time: missing Location in call to Time.In"}, "time: missing Location in call to Time.In")
		}
		if t.Sym != nil {
			return t
		}
		return TimeV{T: t.T.In(loc), Set: true}
	})
	reg("(time.Time).Location", func(in *Interp, fr *frame, fn *ssa.Function, args []Value) Value {
		t := tv(args[0])
		if t.Sym != nil {
			return in.locNative(time.UTC)
		}
		return in.locNative(t.T.Location())
	})
	reg("(time.Time).Add", func(in *Interp, fr *frame, fn *ssa.Function, args []Value) Value {
		t := tv(args[0])
		d := args[1].(*Term)
		if t.Sym == nil && d.IsConst() {
			return TimeV{T: t.T.Add(time.Duration(d.Int())), Set: true}
		}
		return in.timeAdd(t, d)
	})
	reg("(time.Time).Sub", func(in *Interp, fr *frame, fn *ssa.Function, args []Value) Value {
		a, b := tv(args[0]), tv(args[1])
		if a.Sym == nil && b.Sym == nil {
			return in.mkInt(int64(a.T.Sub(b.T)))
		}
		ha, la := in.timeParts(a)
		hb, lb := in.timeParts(b)
		ld := ts.Bin(OSub, la, lb)
		borrow := ts.Ite(ts.Cmp(OUlt, la, lb), ts.BV(8, 1), ts.BV(8, 0))
		hd := ts.Bin(OSub, ts.Bin(OSub, ha, hb), borrow)
		// in range iff hd is the sign extension of ld
		neg := ts.Cmp(OSlt, ld, ts.BV(64, 0))
		inRange := ts.Or(ts.And(ts.Eq(hd, ts.BV(8, 0)), ts.Not(neg)), ts.And(ts.Eq(hd, ts.BV(8, 0xff)), neg))
		// saturating as documented
		sat := ts.Ite(ts.Cmp(OSlt, hd, ts.BV(8, 0)), ts.BV(64, 1<<63), ts.BV(64, 1<<63-1))
		return ts.Ite(inRange, ld, sat)
	})
	reg("(time.Time).After", func(in *Interp, fr *frame, fn *ssa.Function, args []Value) Value {
		lt, _ := in.cmpTimes(tv(args[1]), tv(args[0]))
		return lt
	})
	reg("(time.Time).Before", func(in *Interp, fr *frame, fn *ssa.Function, args []Value) Value {
		lt, _ := in.cmpTimes(tv(args[0]), tv(args[1]))
		return lt
	})
	reg("(time.Time).Equal", func(in *Interp, fr *frame, fn *ssa.Function, args []Value) Value {
		_, eq := in.cmpTimes(tv(args[0]), tv(args[1]))
		return eq
	})
	reg("(time.Time).Format", func(in *Interp, fr *frame, fn *ssa.Function, args []Value) Value {
		if t := tv(args[0]); t.Sym != nil && !(t.Sym.IsConst() && t.Hi.IsConst()) {
			// the rendering of a symbolic instant is only ever used in error text
			return Str{Opq: true}
		}
		return Str{S: in.timeNative(tv(args[0]), "Time.Format").Format(in.goString(args[1], "Time.Format"))}
	})
	reg("(time.Time).String", func(in *Interp, fr *frame, fn *ssa.Function, args []Value) Value {
		return Str{S: in.timeNative(tv(args[0]), "Time.String").String()}
	})
	reg("(time.Time).Truncate", func(in *Interp, fr *frame, fn *ssa.Function, args []Value) Value {
		d := in.concTerm(args[1], "Time.Truncate")
		return TimeV{T: in.timeNative(tv(args[0]), "Time.Truncate").Truncate(time.Duration(d.Int())), Set: true}
	})
	reg("time.ParseInLocation", func(in *Interp, fr *frame, fn *ssa.Function, args []Value) Value {
		loc := in.locationOf(args[2])
		if loc == nil {
			in.goPanic(fr, Str{S: "time: missing Location in call to Date"}, "time: missing Location in call to Date")
		}
		t, err := time.ParseInLocation(in.goString(args[0], "time.ParseInLocation"), in.goString(args[1], "time.ParseInLocation"), loc)
		return Tuple{TimeV{T: t, Set: true}, in.errOrNil(err)}
	})
	reg("time.Parse", func(in *Interp, fr *frame, fn *ssa.Function, args []Value) Value {
		t, err := time.Parse(in.goString(args[0], "time.Parse"), in.goString(args[1], "time.Parse"))
		return Tuple{TimeV{T: t, Set: true}, in.errOrNil(err)}
	})
	reg("time.LoadLocation", func(in *Interp, fr *frame, fn *ssa.Function, args []Value) Value {
		if s := args[0].(Str); s.B != nil && in.path != nil && in.path.Loose {
			if in.choice(2, "loose-loadlocation") == 0 {
				return Tuple{in.locNative(time.UTC), Iface{}}
			}
			return Tuple{(*Value)(nil), in.mkError(Str{Opq: true})}
		}
		loc, err := time.LoadLocation(in.goString(args[0], "time.LoadLocation"))
		if err != nil {
			return Tuple{(*Value)(nil), in.errOrNil(err)}
		}
		return Tuple{in.locNative(loc), Iface{}}
	})
	reg("(*time.Location).String", func(in *Interp, fr *frame, fn *ssa.Function, args []Value) Value {
		loc := in.locationOf(args[0])
		return Str{S: loc.String()}
	})
	reg("(time.Duration).String", func(in *Interp, fr *frame, fn *ssa.Function, args []Value) Value {
		d := in.concTerm(args[0], "Duration.String")
		return Str{S: time.Duration(d.Int()).String()}
	})
	reg("time.FixedZone", func(in *Interp, fr *frame, fn *ssa.Function, args []Value) Value {
		name := in.goString(args[0], "time.FixedZone")
		off := in.concTerm(args[1], "time.FixedZone")
		key := fmt.Sprintf("%s/%d", name, off.Int())
		if n, ok := in.fixedZones[key]; ok {
			return n
		}
		n := in.locNative(time.FixedZone(name, int(off.Int())))
		in.fixedZones[key] = n
		return n
	})
	reg("time.Now", func(in *Interp, fr *frame, fn *ssa.Function, args []Value) Value {
		in.unsupported("time.Now (nondeterministic clock) called")
		return nil
	})
}

// locations: *time.Location values are native handles; time.UTC / time.Local
// globals are mapped to canonical handles.
func (in *Interp) locNative(loc *time.Location) *Native {
	if n, ok := in.locs[loc]; ok {
		return n
	}
	n := &Native{V: loc}
	in.locs[loc] = n
	return n
}

func (in *Interp) locationOf(v Value) *time.Location {
	switch p := v.(type) {
	case *Native:
		if p == nil {
			return nil
		}
		return p.V.(*time.Location)
	case *Value:
		if p == nil {
			return nil
		}
	}
	in.unsupported("non-native *time.Location")
	return nil
}

func (in *Interp) timeGlobal(g *ssa.Global) (*Value, bool) {
	if g.Pkg == nil || g.Pkg.Pkg.Path() != "time" {
		return nil, false
	}
	var loc *time.Location
	switch g.Name() {
	case "UTC":
		loc = time.UTC
	case "Local":
		loc = time.Local
	default:
		return nil, false
	}
	p := new(Value)
	*p = in.locNative(loc)
	return p, true
}

var _ = types.Typ
