package influxql


// C12 — wildcard expansion yields exactly the schema's columns, deterministically.

type c12Meas struct {
	fields map[string]DataType
	tags   map[string]struct{}
}

type c12Schema struct{ m map[string]*c12Meas }

func (s *c12Schema) FieldDimensions(m *Measurement) (map[string]DataType, map[string]struct{}, error) {
	x := s.m[m.Name]
	if x == nil {
		return nil, nil, nil
	}
	return x.fields, x.tags, nil
}

func (s *c12Schema) MapType(m *Measurement, field string) DataType {
	x := s.m[m.Name]
	if x == nil {
		return Unknown
	}
	if t, ok := x.fields[field]; ok {
		return t
	}
	if _, ok := x.tags[field]; ok {
		return Tag
	}
	return Unknown
}

// a field type chosen by the solver among the five field types
func c12Type() DataType {
	t := DataType(vfInt())
	vfAssume(vfOr(vfOr(t == Float, t == Integer), vfOr(vfOr(t == String, t == Boolean), t == Unsigned)))
	return t
}

// precedence as documented: float > integer > unsigned > string > boolean (> unknown)
func c12Rank(t DataType) int {
	return vfIteInt(t == Float, 5, vfIteInt(t == Integer, 4, vfIteInt(t == Unsigned, 3, vfIteInt(t == String, 2, vfIteInt(t == Boolean, 1, 0)))))
}

type c12Col struct {
	name string
	typ  DataType
}

func vfH_C12_expand(tier int) {
	// ---- schema
	sch := &c12Schema{m: map[string]*c12Meas{}}
	nm := 1 + vfChoice(2)
	names := []string{"m1", "m2"}[:nm]
	merged := map[string]DataType{} // reference merge
	hasField := map[string]bool{}
	tagSet := map[string]bool{}
	for mi, mn := range names {
		ms := &c12Meas{fields: map[string]DataType{}, tags: map[string]struct{}{}}
		for _, fn := range []string{"a", "b"} {
			var present bool
			if tier == 0 && mi == 1 {
				present = fn == "a" // quick tier: the second measurement has exactly field a (type still symbolic)
			} else {
				present = vfChoice(2) == 0
			}
			if present {
				t := c12Type()
				ms.fields[fn] = t
				if !hasField[fn] {
					hasField[fn] = true
					merged[fn] = t
				} else {
					old := merged[fn]
					merged[fn] = DataType(vfIteInt(c12Rank(t) > c12Rank(old), int(t), int(old)))
				}
			}
		}
		switch vfChoice(3) {
		case 1:
			ms.tags["t"] = struct{}{}
			tagSet["t"] = true
		case 2:
			ms.tags["t"] = struct{}{}
			ms.tags["a"] = struct{}{} // a tag shadowing a field name
			tagSet["t"], tagSet["a"] = true, true
		}
		sch.m[mn] = ms
	}
	src := "m1"
	if nm == 2 {
		src = "m1, m2"
	}
	// ---- statement
	type shape struct {
		fields  string
		groupBy string
	}
	shapes := []shape{
		{"*", ""}, {"*::field", ""}, {"*::tag", ""}, {"/a/", ""}, {"b, *", ""}, {"*", " GROUP BY t"}, {"*", " GROUP BY *"}, {"a", " GROUP BY *"},
		{"mean(*)", ""}, {"count(*)", ""}, {"max(/a|b/)", ""}, {"a, b", ""}, {"*", " GROUP BY /t/"}, {"holt_winters(*, 1, 2)", ""},
		{"cumulative_sum(count(*))", ""}, {"count(mean(*))", ""}, {"difference(max(/a|b/))", ""}, {"derivative(holt_winters(*, 1, 2))", ""},
		// a subquery whose own wildcard must be expanded first: the outer reference gets the type of the expanded column
		{"a", "@(SELECT * FROM m1)"}, {"a, t", "@(SELECT b FROM m1 GROUP BY *)"},
	}
	sh := shapes[vfChoice(len(shapes))]
	subq := ""
	if len(sh.groupBy) > 0 && sh.groupBy[0] == '@' { // a subquery source instead of the measurement list
		if nm == 2 {
			return
		}
		subq = sh.groupBy[1:]
		src = subq
		sh.groupBy = ""
	}
	text := "SELECT " + sh.fields + " FROM " + src + sh.groupBy
	vfNote(text)
	stmt, err := ParseStatement(text)
	if err != nil {
		return
	}
	sel := stmt.(*SelectStatement)
	vfFreeze(sel)
	out, err := sel.RewriteFields(sch)
	writes := vfFrozenWrites()
	vfAssert(writes == 0, "C12/receiver-unchanged")
	vfAssert(err == nil, "C12/expansion-succeeds")
	if err != nil {
		return
	}
	// ---- reference expansion
	dimWildcard := sh.groupBy == " GROUP BY *" || sh.groupBy == " GROUP BY /t/"
	grouped := map[string]bool{}
	if sh.groupBy == " GROUP BY t" {
		grouped["t"] = true
	}
	var cols []c12Col
	for _, fn := range []string{"a", "b"} {
		if hasField[fn] {
			cols = append(cols, c12Col{fn, merged[fn]})
		}
	}
	var tagNames []string
	for _, tn := range []string{"a", "t"} {
		if tagSet[tn] {
			tagNames = append(tagNames, tn)
		}
	}
	if len(cols) > 0 && !dimWildcard {
		for _, tn := range tagNames {
			if !grouped[tn] {
				cols = append(cols, c12Col{tn, Tag})
			}
		}
	}
	// sorted by name, then by type
	less := func(x, y c12Col) bool {
		if x.name != y.name {
			return x.name < y.name
		}
		return x.typ < y.typ
	}
	for i := 1; i < len(cols); i++ {
		for j := i; j > 0 && less(cols[j], cols[j-1]); j-- {
			cols[j], cols[j-1] = cols[j-1], cols[j]
		}
	}
	var want Fields
	star := func(only Token) {
		for _, c := range cols {
			if only == FIELD && c.typ == Tag {
				continue
			}
			if only == TAG && c.typ != Tag {
				continue
			}
			want = append(want, &Field{Expr: &VarRef{Val: c.name, Type: c.typ}})
		}
	}
	outer := "" // nested calls: the innermost call decides the types, the outermost the column name
	callStar := func(name string, match func(string) bool, allowed func(DataType) bool, extra []Expr) {
		for _, c := range cols {
			if c.typ == Tag || !allowed(c.typ) || !match(c.name) {
				continue
			}
			args := append([]Expr{&VarRef{Val: c.name, Type: c.typ}}, extra...)
			if outer != "" {
				want = append(want, &Field{Expr: &Call{Name: outer, Args: []Expr{&Call{Name: name, Args: args}}}, Alias: outer + "_" + c.name})
				continue
			}
			want = append(want, &Field{Expr: &Call{Name: name, Args: args}, Alias: name + "_" + c.name})
		}
	}
	numeric := func(t DataType) bool { return t == Float || t == Integer || t == Unsigned }
	any := func(string) bool { return true }
	typed := func(n string) Expr {
		// an untyped reference receives its schema type (field type wins over tag)
		if hasField[n] {
			return &VarRef{Val: n, Type: merged[n]}
		}
		if tagSet[n] {
			return &VarRef{Val: n, Type: Tag}
		}
		return &VarRef{Val: n}
	}
	// the type an outer reference gets from a subquery column (first field of that name in the expanded
	// inner list - sorted by name, then by type, where tag sorts before unsigned -, else a GROUP BY tag)
	subType := func(n string, innerHasFields bool) DataType {
		if innerHasFields && hasField[n] {
			if tagSet[n] {
				return DataType(vfIteInt(merged[n] == Unsigned, int(Tag), int(merged[n])))
			}
			return merged[n]
		}
		if innerHasFields && !hasField["a"] && !hasField["b"] {
			return Unknown // a wildcard over a measurement without fields expands to nothing, tags included
		}
		if tagSet[n] {
			return Tag
		}
		return Unknown
	}
	switch sh.fields {
	case "a":
		if subq != "" {
			want = append(want, &Field{Expr: &VarRef{Val: "a", Type: subType("a", true)}})
		} else {
			want = append(want, &Field{Expr: typed("a")})
		}
	case "a, t":
		want = append(want, &Field{Expr: &VarRef{Val: "a", Type: subType("a", false)}}, &Field{Expr: &VarRef{Val: "t", Type: subType("t", false)}})
	case "*":
		star(0)
	case "*::field":
		star(FIELD)
	case "*::tag":
		star(TAG)
	case "/a/":
		for _, c := range cols {
			if c.name == "a" {
				want = append(want, &Field{Expr: &VarRef{Val: c.name, Type: c.typ}})
			}
		}
	case "b, *":
		want = append(want, &Field{Expr: typed("b")})
		star(0)
	case "a, b":
		want = append(want, &Field{Expr: typed("a")}, &Field{Expr: typed("b")})
	case "mean(*)":
		callStar("mean", any, numeric, nil)
	case "count(*)":
		callStar("count", any, func(t DataType) bool { return numeric(t) || t == String || t == Boolean }, nil)
	case "max(/a|b/)":
		callStar("max", any, func(t DataType) bool { return numeric(t) || t == Boolean }, nil)
	case "cumulative_sum(count(*))":
		outer = "cumulative_sum"
		callStar("count", any, func(t DataType) bool { return numeric(t) || t == String || t == Boolean }, nil)
	case "count(mean(*))":
		outer = "count"
		callStar("mean", any, numeric, nil)
	case "difference(max(/a|b/))":
		outer = "difference"
		callStar("max", any, func(t DataType) bool { return numeric(t) || t == Boolean }, nil)
	case "derivative(holt_winters(*, 1, 2))":
		outer = "derivative"
		callStar("holt_winters", any, func(t DataType) bool { return t == Float || t == Integer }, []Expr{&IntegerLiteral{Val: 1}, &IntegerLiteral{Val: 2}})
	case "holt_winters(*, 1, 2)":
		callStar("holt_winters", any, func(t DataType) bool { return t == Float || t == Integer }, []Expr{&IntegerLiteral{Val: 1}, &IntegerLiteral{Val: 2}})
	}
	vfAssert(vfDeepEqual(out.Fields, want), "C12/fields-are-exactly-the-matching-schema-columns-sorted-and-typed")
	if subq == "(SELECT * FROM m1)" {
		// the subquery's own wildcard is expanded like a top-level one
		var inner Fields
		for _, c := range cols {
			inner = append(inner, &Field{Expr: &VarRef{Val: c.name, Type: c.typ}})
		}
		sq, ok := out.Sources[0].(*SubQuery)
		vfAssert(ok && vfDeepEqual(sq.Statement.Fields, inner), "C12/subquery-wildcard-is-expanded-to-the-schema-columns")
	}
	// dimensions
	var wantDims Dimensions
	switch sh.groupBy {
	case " GROUP BY t":
		wantDims = Dimensions{{Expr: &VarRef{Val: "t"}}}
	case " GROUP BY *":
		for _, tn := range tagNames {
			wantDims = append(wantDims, &Dimension{Expr: &VarRef{Val: tn}})
		}
	case " GROUP BY /t/":
		for _, tn := range tagNames {
			if tn == "t" {
				wantDims = append(wantDims, &Dimension{Expr: &VarRef{Val: tn}})
			}
		}
	}
	vfAssert(vfDeepEqual(out.Dimensions, wantDims), "C12/dimensions-are-exactly-the-matching-tag-keys-sorted")
	vfReach("C12_expand/ok")
}
