package influxql

import (
	"math"
	"time"
)

// Statement generators: one per statement kind of the grammar (README plus the
// parser's extensions). Each returns the AST its text denotes.

type vfStmtGen struct {
	name string
	gen  func(g *vfGen) Statement
}

func vfHasCall(e Expr) bool {
	switch e := e.(type) {
	case *Call:
		return true
	case *BinaryExpr:
		return vfHasCall(e.LHS) || vfHasCall(e.RHS)
	case *ParenExpr:
		return vfHasCall(e.Expr)
	}
	return false
}

// field writes one SELECT field.
func (g *vfGen) field(depth int) *Field {
	f := &Field{}
	switch g.pick(4) {
	case 0:
		f.Expr = g.expr(depth, true)
	case 1:
		g.raw("*")
		f.Expr = &Wildcard{}
		g.nest++
		wt := g.pick(3)
		g.nest--
		switch wt {
		case 1:
			g.raw("::")
			g.kw("FIELD")
			f.Expr = &Wildcard{Type: FIELD}
		case 2:
			g.raw("::")
			g.kw("TAG")
			f.Expr = &Wildcard{Type: TAG}
		}
		return f
	case 2:
		f.Expr = g.regex()
		return f
	default:
		f.Expr = g.varref()
	}
	if g.pick(2) == 1 {
		g.kws("AS")
		g.sp()
		f.Alias = g.ident()
	}
	return f
}

func (g *vfGen) fields(depth, max int) Fields {
	var out Fields
	n := 1 + g.pick(max)
	for i := 0; i < n; i++ {
		if i > 0 {
			g.raw(",")
			g.sp()
		}
		out = append(out, g.field(depth))
	}
	return out
}

// selectBody writes everything after the SELECT keyword.
// opts is a bit set of optional clauses.
const (
	selInto = 1 << iota
	selWhere
	selGroup
	selFill
	selOrder
	selLimit
	selOffset
	selSLimit
	selSOffset
	selTZ
	selSubquery
	selRichSources
)

func (g *vfGen) selectBody(opts int, depth int) *SelectStatement {
	s := &SelectStatement{}
	g.sp()
	nf := 2
	if opts&selSubquery != 0 {
		nf = 1
	}
	s.Fields = g.fields(depth, nf)
	s.IsRawQuery = true
	for _, f := range s.Fields {
		if vfHasCall(f.Expr) {
			s.IsRawQuery = false
		}
	}
	if opts&selInto != 0 {
		g.kws("INTO")
		g.sp()
		m := &Measurement{IsTarget: true}
		switch g.pick(5) {
		case 0:
			m.Name = g.ident()
		case 1:
			m.RetentionPolicy = g.ident()
			g.raw(".")
			m.Name = g.ident()
		case 2:
			m.Database = g.ident()
			g.raw(".")
			m.RetentionPolicy = g.ident()
			g.raw(".")
			m.Name = g.ident()
		case 3:
			m.Database = g.ident()
			g.raw("..")
			m.Name = g.ident()
		default: // back-reference to the source measurement
			m.Database = g.ident()
			g.raw(".")
			m.RetentionPolicy = g.ident()
			g.raw(".:")
			g.kw("MEASUREMENT")
		}
		s.Target = &Target{Measurement: m}
	}
	if opts&selSubquery != 0 {
		g.kws("FROM")
		g.sp()
		g.raw("(")
		g.kw("SELECT")
		sub := g.selectBody(0, 0)
		g.raw(")")
		s.Sources = Sources{&SubQuery{Statement: sub}}
	} else {
		s.Sources = g.sources(opts&selRichSources != 0)
	}
	if opts&selWhere != 0 {
		s.Condition = g.where()
	}
	if opts&selGroup != 0 {
		s.Dimensions = g.dimensions()
	}
	if opts&selFill != 0 {
		g.sp()
		g.raw("fill(")
		switch g.pick(6) {
		case 0:
			g.raw("null")
			s.Fill = NullFill
		case 1:
			g.raw("none")
			s.Fill = NoFill
		case 2:
			g.raw("previous")
			s.Fill = PreviousFill
		case 3:
			g.raw("linear")
			s.Fill = LinearFill
		case 4:
			s.Fill = NumberFill
			s.FillValue = int64(g.integer(0, math.MaxInt64))
		default:
			s.Fill = NumberFill
			g.raw("2.5")
			s.FillValue = float64(2.5)
		}
		g.raw(")")
	}
	if opts&selOrder != 0 {
		s.SortFields = g.orderBy()
	}
	if opts&selLimit != 0 {
		s.Limit = g.kwInt("LIMIT")
	}
	if opts&selOffset != 0 {
		s.Offset = g.kwInt("OFFSET")
	}
	if opts&selSLimit != 0 {
		s.SLimit = g.kwInt("SLIMIT")
	}
	if opts&selSOffset != 0 {
		s.SOffset = g.kwInt("SOFFSET")
	}
	if opts&selTZ != 0 {
		g.sp()
		tzs := []string{"UTC", "Europe/London", "America/New_York"}
		z := tzs[g.pick(len(tzs))]
		g.raw("tz('" + z + "')")
		loc, _ := time.LoadLocation(z)
		s.Location = loc
	}
	return s
}

// option sets explored for SELECT
func vfSelectOptSets(tier int) []int {
	sets := []int{
		0,
		selInto, selWhere, selGroup, selGroup | selFill, selOrder, selLimit, selOffset, selSLimit, selSOffset, selTZ, selSubquery, selRichSources,
		selInto | selWhere | selGroup | selFill | selOrder | selLimit | selOffset | selSLimit | selSOffset | selTZ,
	}
	if tier > 0 {
		single := []int{selInto, selWhere, selGroup, selOrder, selLimit, selOffset, selSLimit, selSOffset, selTZ, selSubquery, selRichSources}
		for i := 0; i < len(single); i++ {
			for j := i + 1; j < len(single); j++ {
				if single[i]|single[j] == selInto|selSubquery {
					continue
				}
				sets = append(sets, single[i]|single[j])
			}
		}
	}
	return sets
}

func genSelect(g *vfGen) Statement {
	sets := vfSelectOptSets(g.tier)
	opts := sets[vfChoice(len(sets))]
	g.kw("SELECT")
	depth := 1
	if opts != 0 {
		depth = 0
	}
	return g.selectBody(opts, depth)
}

func genExplain(g *vfGen) Statement {
	s := &ExplainStatement{}
	g.kw("EXPLAIN")
	k := vfChoice(4)
	if k&1 != 0 {
		g.kws("ANALYZE")
		s.Analyze = true
	}
	if k&2 != 0 {
		g.kws("VERBOSE")
		s.Verbose = true
	}
	g.kws("SELECT")
	s.Statement = g.selectBody([]int{selWhere, selInto, selInto | selWhere | selGroup, selSubquery, selRichSources}[vfChoice(5)], 0)
	return s
}

func genDelete(g *vfGen) Statement {
	s := &DeleteSeriesStatement{}
	g.kw("DELETE")
	k := 1 + vfChoice(3)
	if k&1 != 0 {
		g.kws("FROM")
		g.sp()
		if g.pick(2) == 0 {
			s.Sources = Sources{&Measurement{Name: g.ident()}}
		} else {
			s.Sources = Sources{&Measurement{Regex: g.regex()}}
		}
	}
	if k&2 != 0 {
		s.Condition = g.where()
	}
	return s
}

func genDropSeries(g *vfGen) Statement {
	s := &DropSeriesStatement{}
	g.kw("DROP")
	g.kws("SERIES")
	k := 1 + vfChoice(3)
	if k&1 != 0 {
		g.kws("FROM")
		g.sp()
		if g.pick(2) == 0 {
			s.Sources = Sources{&Measurement{Name: g.ident()}}
		} else {
			s.Sources = Sources{&Measurement{Regex: g.regex()}}
		}
	}
	if k&2 != 0 {
		s.Condition = g.where()
	}
	return s
}

// optional clauses common to the SHOW family; which is a bit set
const (
	shOn = 1 << iota
	shFrom
	shWhere
	shOrder
	shLimit
	shOffset
	shGroup
	shSLimit
	shSOffset
)

type vfShowParts struct {
	db     string
	src    Sources
	cond   Expr
	sort   SortFields
	limit  int
	offset int
	dims   Dimensions
	slimit, soffset int
}

// showParts writes the optional clauses that are enabled in `allowed` and chosen by this path.
func (g *vfGen) showParts(allowed int, mid func()) vfShowParts {
	var p vfShowParts
	// choose a subset: none, each alone, all
	var sets []int
	sets = append(sets, 0)
	for b := 1; b <= shSOffset; b <<= 1 {
		if allowed&b != 0 {
			sets = append(sets, b)
		}
	}
	sets = append(sets, allowed)
	use := sets[vfChoice(len(sets))]
	if use&shOn != 0 {
		p.db = g.onDB()
	}
	if use&shFrom != 0 {
		p.src = g.sources(true)
	}
	if mid != nil {
		mid()
	}
	if use&shWhere != 0 {
		p.cond = g.where()
	}
	if use&shGroup != 0 {
		p.dims = g.dimensions()
	}
	if use&shOrder != 0 {
		p.sort = g.orderBy()
	}
	if use&shLimit != 0 {
		p.limit = g.kwInt("LIMIT")
	}
	if use&shOffset != 0 {
		p.offset = g.kwInt("OFFSET")
	}
	if use&shSLimit != 0 {
		p.slimit = g.kwInt("SLIMIT")
	}
	if use&shSOffset != 0 {
		p.soffset = g.kwInt("SOFFSET")
	}
	return p
}

func genShowSeries(g *vfGen) Statement {
	g.kw("SHOW")
	g.kws("SERIES")
	p := g.showParts(shOn|shFrom|shWhere|shOrder|shLimit|shOffset, nil)
	return &ShowSeriesStatement{Database: p.db, Sources: p.src, Condition: p.cond, SortFields: p.sort, Limit: p.limit, Offset: p.offset}
}

func (g *vfGen) exactCardinality() bool {
	exact := vfChoice(2) == 1
	if exact {
		g.kws("EXACT")
	}
	g.kws("CARDINALITY")
	return exact
}

const shCard = shOn | shFrom | shWhere | shGroup | shLimit | shOffset

func genShowSeriesCardinality(g *vfGen) Statement {
	g.kw("SHOW")
	g.kws("SERIES")
	exact := g.exactCardinality()
	p := g.showParts(shCard, nil)
	return &ShowSeriesCardinalityStatement{Exact: exact, Database: p.db, Sources: p.src, Condition: p.cond, Dimensions: p.dims, Limit: p.limit, Offset: p.offset}
}

func genShowMeasurementCardinality(g *vfGen) Statement {
	g.kw("SHOW")
	g.kws("MEASUREMENT")
	exact := g.exactCardinality()
	p := g.showParts(shCard, nil)
	return &ShowMeasurementCardinalityStatement{Exact: exact, Database: p.db, Sources: p.src, Condition: p.cond, Dimensions: p.dims, Limit: p.limit, Offset: p.offset}
}

func genShowTagKeyCardinality(g *vfGen) Statement {
	g.kw("SHOW")
	g.kws("TAG", "KEY")
	exact := g.exactCardinality()
	p := g.showParts(shCard, nil)
	return &ShowTagKeyCardinalityStatement{Exact: exact, Database: p.db, Sources: p.src, Condition: p.cond, Dimensions: p.dims, Limit: p.limit, Offset: p.offset}
}

func genShowFieldKeyCardinality(g *vfGen) Statement {
	g.kw("SHOW")
	g.kws("FIELD", "KEY")
	exact := g.exactCardinality()
	p := g.showParts(shCard, nil)
	return &ShowFieldKeyCardinalityStatement{Exact: exact, Database: p.db, Sources: p.src, Condition: p.cond, Dimensions: p.dims, Limit: p.limit, Offset: p.offset}
}

// withKey writes `WITH KEY <op> ...` and returns operator and literal.
func (g *vfGen) withKey() (Token, Literal) {
	g.kws("WITH", "KEY")
	g.sp()
	switch g.pick(5) {
	case 0:
		g.raw("=")
		g.sp()
		return EQ, &StringLiteral{Val: g.ident()}
	case 1:
		g.raw("!=")
		g.sp()
		return NEQ, &StringLiteral{Val: g.ident()}
	case 2:
		g.raw("=~")
		g.sp()
		return EQREGEX, g.regex()
	case 3:
		g.raw("!~")
		g.sp()
		return NEQREGEX, g.regex()
	default:
		g.kw("IN")
		g.sp()
		g.raw("(")
		var vals []string
		n := 1 + g.pick(2)
		for i := 0; i < n; i++ {
			if i > 0 {
				g.raw(",")
				g.sp()
			}
			vals = append(vals, g.ident())
		}
		g.raw(")")
		return IN, &ListLiteral{Vals: vals}
	}
}

func genShowTagValues(g *vfGen) Statement {
	g.kw("SHOW")
	g.kws("TAG", "VALUES")
	var op Token
	var lit Literal
	p := g.showParts(shOn|shFrom|shWhere|shOrder|shLimit|shOffset, func() { op, lit = g.withKey() })
	return &ShowTagValuesStatement{Database: p.db, Sources: p.src, Op: op, TagKeyExpr: lit, Condition: p.cond, SortFields: p.sort, Limit: p.limit, Offset: p.offset}
}

func genShowTagValuesCardinality(g *vfGen) Statement {
	g.kw("SHOW")
	g.kws("TAG", "VALUES")
	exact := g.exactCardinality()
	var op Token
	var lit Literal
	p := g.showParts(shCard, func() { op, lit = g.withKey() })
	return &ShowTagValuesCardinalityStatement{Exact: exact, Database: p.db, Sources: p.src, Op: op, TagKeyExpr: lit, Condition: p.cond, Dimensions: p.dims, Limit: p.limit, Offset: p.offset}
}

func genShowTagKeys(g *vfGen) Statement {
	g.kw("SHOW")
	g.kws("TAG", "KEYS")
	var op Token
	var lit Expr
	with := vfChoice(2) == 1
	p := g.showParts(shOn|shFrom|shWhere|shOrder|shLimit|shOffset|shSLimit|shSOffset, func() {
		if with {
			var l Literal
			op, l = g.withKey()
			lit = l
		}
	})
	return &ShowTagKeysStatement{Database: p.db, Sources: p.src, TagKeyOp: op, TagKeyExpr: lit, Condition: p.cond, SortFields: p.sort, Limit: p.limit, Offset: p.offset, SLimit: p.slimit, SOffset: p.soffset}
}

func genShowFieldKeys(g *vfGen) Statement {
	g.kw("SHOW")
	g.kws("FIELD", "KEYS")
	p := g.showParts(shOn|shFrom|shOrder|shLimit|shOffset, nil)
	return &ShowFieldKeysStatement{Database: p.db, Sources: p.src, SortFields: p.sort, Limit: p.limit, Offset: p.offset}
}

func genShowMeasurements(g *vfGen) Statement {
	s := &ShowMeasurementsStatement{}
	g.kw("SHOW")
	g.kws("MEASUREMENTS")
	switch g.pick(5) {
	case 0:
	case 1:
		s.Database = g.onDB()
	case 2:
		s.Database = g.onDB()
		g.raw(".")
		s.RetentionPolicy = g.ident()
	case 3:
		g.kws("ON")
		g.sp()
		g.raw("*.*")
		s.WildcardDatabase, s.WildcardRetentionPolicy = true, true
	default:
		g.kws("ON")
		g.sp()
		g.raw("*.")
		s.WildcardDatabase = true
		s.RetentionPolicy = g.ident()
	}
	switch g.pick(3) {
	case 0:
	case 1:
		g.kws("WITH", "MEASUREMENT")
		g.sp()
		g.raw("=")
		g.sp()
		s.Source = &Measurement{Name: g.ident()}
	default:
		g.kws("WITH", "MEASUREMENT")
		g.sp()
		g.raw("=~")
		g.sp()
		s.Source = &Measurement{Regex: g.regex()}
	}
	p := g.showParts(shWhere|shOrder|shLimit|shOffset, nil)
	s.Condition, s.SortFields, s.Limit, s.Offset = p.cond, p.sort, p.limit, p.offset
	return s
}

func genShowRetentionPolicies(g *vfGen) Statement {
	s := &ShowRetentionPoliciesStatement{}
	g.kw("SHOW")
	g.kws("RETENTION", "POLICIES")
	if vfChoice(2) == 1 {
		s.Database = g.onDB()
	}
	return s
}

func genShowStats(g *vfGen) Statement {
	s := &ShowStatsStatement{}
	g.kw("SHOW")
	g.kws("STATS")
	if vfChoice(2) == 1 {
		g.kws("FOR")
		g.sp()
		s.Module = g.str()
	}
	return s
}

func genShowDiagnostics(g *vfGen) Statement {
	s := &ShowDiagnosticsStatement{}
	g.kw("SHOW")
	g.kws("DIAGNOSTICS")
	if vfChoice(2) == 1 {
		g.kws("FOR")
		g.sp()
		s.Module = g.str()
	}
	return s
}

func genShowGrants(g *vfGen) Statement {
	g.kw("SHOW")
	g.kws("GRANTS", "FOR")
	g.sp()
	return &ShowGrantsForUserStatement{Name: g.ident()}
}

func genShowSimple(g *vfGen) Statement {
	g.kw("SHOW")
	switch vfChoice(8) {
	case 0:
		g.kws("DATABASES")
		return &ShowDatabasesStatement{}
	case 1:
		g.kws("CONTINUOUS", "QUERIES")
		return &ShowContinuousQueriesStatement{}
	case 2:
		g.kws("QUERIES")
		return &ShowQueriesStatement{}
	case 3:
		g.kws("SHARD", "GROUPS")
		return &ShowShardGroupsStatement{}
	case 4:
		g.kws("SHARDS")
		return &ShowShardsStatement{}
	case 5:
		g.kws("SUBSCRIPTIONS")
		return &ShowSubscriptionsStatement{}
	case 6:
		g.kws("USERS")
		return &ShowUsersStatement{}
	default:
		g.kws("DATABASES")
		return &ShowDatabasesStatement{}
	}
}

func genCreateDatabase(g *vfGen) Statement {
	s := &CreateDatabaseStatement{}
	g.kw("CREATE")
	g.kws("DATABASE")
	g.sp()
	s.Name = g.ident()
	k := vfChoice(8)
	// 0: no WITH; 1..6: one option; 7: all options
	if k == 0 {
		return s
	}
	g.kws("WITH")
	s.RetentionPolicyCreate = true
	if k == 1 || k == 7 {
		g.kws("DURATION")
		g.sp()
		d := g.duration()
		s.RetentionPolicyDuration = &d
	}
	if k == 2 || k == 7 {
		g.kws("REPLICATION")
		g.sp()
		n := int(g.integer(1, math.MaxInt32))
		s.RetentionPolicyReplication = &n
	}
	if k == 3 || k == 7 {
		g.kws("SHARD", "DURATION")
		g.sp()
		s.RetentionPolicyShardGroupDuration = g.duration()
	}
	if k == 4 || k == 7 {
		g.kws("FUTURE", "LIMIT")
		g.sp()
		d := g.duration()
		s.FutureWriteLimit = &d
	}
	if k == 5 || k == 7 {
		g.kws("PAST", "LIMIT")
		g.sp()
		d := g.duration()
		s.PastWriteLimit = &d
	}
	if k == 6 || k == 7 {
		g.kws("NAME")
		g.sp()
		s.RetentionPolicyName = g.ident()
	}
	return s
}

func genCreateRetentionPolicy(g *vfGen) Statement {
	s := &CreateRetentionPolicyStatement{}
	g.kw("CREATE")
	g.kws("RETENTION", "POLICY")
	g.sp()
	s.Name = g.ident()
	s.Database = g.onDB()
	g.kws("DURATION")
	g.sp()
	if g.pick(2) == 1 {
		g.kw("INF")
	} else {
		s.Duration = g.duration()
	}
	g.kws("REPLICATION")
	g.sp()
	s.Replication = int(g.integer(1, math.MaxInt32))
	k := vfChoice(6)
	if k == 1 || k == 5 {
		g.kws("SHARD", "DURATION")
		g.sp()
		s.ShardGroupDuration = g.duration()
	}
	if k == 2 || k == 5 {
		g.kws("DEFAULT")
		s.Default = true
	}
	if k == 3 || k == 5 {
		g.kws("FUTURE", "LIMIT")
		g.sp()
		s.FutureWriteLimit = g.duration()
	}
	if k == 4 || k == 5 {
		g.kws("PAST", "LIMIT")
		g.sp()
		s.PastWriteLimit = g.duration()
	}
	return s
}

func genAlterRetentionPolicy(g *vfGen) Statement {
	s := &AlterRetentionPolicyStatement{}
	g.kw("ALTER")
	g.kws("RETENTION", "POLICY")
	g.sp()
	if g.pick(2) == 1 {
		g.kw("DEFAULT")
		s.Name = "default"
	} else {
		s.Name = g.ident()
	}
	s.Database = g.onDB()
	// one option, or all six in one of two orders
	k := vfChoice(8)
	dur := func() {
		g.kws("DURATION")
		g.sp()
		d := g.duration()
		s.Duration = &d
	}
	rep := func() {
		g.kws("REPLICATION")
		g.sp()
		n := int(g.integer(1, math.MaxInt32))
		s.Replication = &n
	}
	shard := func() {
		g.kws("SHARD", "DURATION")
		g.sp()
		d := g.duration()
		s.ShardGroupDuration = &d
	}
	def := func() {
		g.kws("DEFAULT")
		s.Default = true
	}
	fut := func() {
		g.kws("FUTURE", "LIMIT")
		g.sp()
		d := g.duration()
		s.FutureWriteLimit = &d
	}
	past := func() {
		g.kws("PAST", "LIMIT")
		g.sp()
		d := g.duration()
		s.PastWriteLimit = &d
	}
	switch k {
	case 0:
		dur()
	case 1:
		rep()
	case 2:
		shard()
	case 3:
		def()
	case 4:
		fut()
	case 5:
		past()
	case 6:
		dur()
		rep()
		shard()
		def()
		fut()
		past()
	default:
		past()
		fut()
		def()
		shard()
		rep()
		dur()
	}
	return s
}

func genUserStatements(g *vfGen) Statement {
	switch vfChoice(4) {
	case 0:
		s := &CreateUserStatement{}
		g.kw("CREATE")
		g.kws("USER")
		g.sp()
		s.Name = g.ident()
		g.kws("WITH", "PASSWORD")
		g.sp()
		s.Password = g.str()
		if vfChoice(2) == 1 {
			g.kws("WITH", "ALL", "PRIVILEGES")
			s.Admin = true
		}
		return s
	case 1:
		g.kw("DROP")
		g.kws("USER")
		g.sp()
		return &DropUserStatement{Name: g.ident()}
	case 2:
		s := &SetPasswordUserStatement{}
		g.kw("SET")
		g.kws("PASSWORD", "FOR")
		g.sp()
		s.Name = g.ident()
		g.sp()
		g.raw("=")
		g.sp()
		s.Password = g.str()
		return s
	default:
		s := &KillQueryStatement{}
		g.kw("KILL")
		g.kws("QUERY")
		g.sp()
		s.QueryID = g.integer(0, math.MaxUint64)
		if vfChoice(2) == 1 {
			s.Host = g.onDB()
		}
		return s
	}
}

func (g *vfGen) privilege() Privilege {
	g.sp()
	switch vfChoice(4) {
	case 0:
		g.kw("READ")
		return ReadPrivilege
	case 1:
		g.kw("WRITE")
		return WritePrivilege
	case 2:
		g.kw("ALL")
		return AllPrivileges
	default:
		g.kw("ALL")
		g.kws("PRIVILEGES")
		return AllPrivileges
	}
}

func genGrantRevoke(g *vfGen) Statement {
	grant := vfChoice(2) == 0
	if grant {
		g.kw("GRANT")
	} else {
		g.kw("REVOKE")
	}
	if vfChoice(3) == 0 {
		// admin form: ALL [PRIVILEGES] TO/FROM user
		g.sp()
		g.kw("ALL")
		if vfChoice(2) == 1 {
			g.kws("PRIVILEGES")
		}
		if grant {
			g.kws("TO")
			g.sp()
			return &GrantAdminStatement{User: g.ident()}
		}
		g.kws("FROM")
		g.sp()
		return &RevokeAdminStatement{User: g.ident()}
	}
	p := g.privilege()
	on := g.onDB()
	if grant {
		g.kws("TO")
		g.sp()
		return &GrantStatement{Privilege: p, On: on, User: g.ident()}
	}
	g.kws("FROM")
	g.sp()
	return &RevokeStatement{Privilege: p, On: on, User: g.ident()}
}

func genDropSimple(g *vfGen) Statement {
	g.kw("DROP")
	switch vfChoice(6) {
	case 0:
		g.kws("DATABASE")
		g.sp()
		return &DropDatabaseStatement{Name: g.ident()}
	case 1:
		g.kws("MEASUREMENT")
		g.sp()
		return &DropMeasurementStatement{Name: g.ident()}
	case 2:
		g.kws("RETENTION", "POLICY")
		g.sp()
		s := &DropRetentionPolicyStatement{Name: g.ident()}
		s.Database = g.onDB()
		return s
	case 3:
		g.kws("SHARD")
		g.sp()
		return &DropShardStatement{ID: g.integer(0, math.MaxUint64)}
	case 4:
		g.kws("CONTINUOUS", "QUERY")
		g.sp()
		s := &DropContinuousQueryStatement{Name: g.ident()}
		s.Database = g.onDB()
		return s
	default:
		g.kws("SUBSCRIPTION")
		g.sp()
		s := &DropSubscriptionStatement{Name: g.ident()}
		s.Database = g.onDB()
		g.raw(".")
		s.RetentionPolicy = g.ident()
		return s
	}
}

func genCreateSubscription(g *vfGen) Statement {
	s := &CreateSubscriptionStatement{}
	g.kw("CREATE")
	g.kws("SUBSCRIPTION")
	g.sp()
	s.Name = g.ident()
	s.Database = g.onDB()
	g.raw(".")
	s.RetentionPolicy = g.ident()
	g.kws("DESTINATIONS")
	if vfChoice(2) == 0 {
		g.kws("ALL")
		s.Mode = "ALL"
	} else {
		g.kws("ANY")
		s.Mode = "ANY"
	}
	n := 1 + g.pick(2)
	for i := 0; i < n; i++ {
		if i > 0 {
			g.raw(",")
		}
		g.sp()
		s.Destinations = append(s.Destinations, g.str())
	}
	return s
}

func genCreateContinuousQuery(g *vfGen) Statement {
	s := &CreateContinuousQueryStatement{}
	g.kw("CREATE")
	g.kws("CONTINUOUS", "QUERY")
	g.sp()
	s.Name = g.ident()
	s.Database = g.onDB()
	switch vfChoice(4) {
	case 0:
	case 1:
		g.kws("RESAMPLE", "EVERY")
		g.sp()
		s.ResampleEvery = g.positiveDuration()
	case 2:
		g.kws("RESAMPLE", "FOR")
		g.sp()
		s.ResampleFor = g.positiveDuration()
	default:
		g.kws("RESAMPLE", "EVERY")
		g.sp()
		s.ResampleEvery = g.positiveDuration()
		g.kws("FOR")
		g.sp()
		s.ResampleFor = g.positiveDuration()
	}
	g.kws("BEGIN", "SELECT")
	g.sp()
	sel := &SelectStatement{}
	if vfChoice(2) == 0 {
		// raw query
		sel.Fields = Fields{{Expr: g.varref()}}
		sel.IsRawQuery = true
		g.kws("INTO")
		g.sp()
		sel.Target = &Target{Measurement: &Measurement{Name: g.ident(), IsTarget: true}}
		sel.Sources = g.sources(false)
	} else {
		// aggregate: GROUP BY time(d) with d > 0 is required
		g.raw("count(")
		v := g.varref()
		g.raw(")")
		sel.Fields = Fields{{Expr: &Call{Name: "count", Args: []Expr{v}}}}
		g.kws("INTO")
		g.sp()
		sel.Target = &Target{Measurement: &Measurement{Name: g.ident(), IsTarget: true}}
		sel.Sources = g.sources(false)
		g.kws("GROUP", "BY")
		g.sp()
		g.raw("time(")
		d := g.positiveDuration()
		g.raw(")")
		sel.Dimensions = Dimensions{{Expr: &Call{Name: "time", Args: []Expr{&DurationLiteral{Val: d}}}}}
		sel.groupByInterval = d // memo filled in by the parser's own validation
	}
	s.Source = sel
	g.kws("END")
	// the parser rejects FOR shorter than max(EVERY, GROUP BY interval): stay inside the accepted grammar
	if s.ResampleFor != 0 {
		m := int64(sel.groupByInterval)
		m = vfIteI64(int64(s.ResampleEvery) > m, int64(s.ResampleEvery), m)
		vfAssume(m <= int64(s.ResampleFor))
	}
	return s
}

// positiveDuration writes a duration literal known to be > 0.
func (g *vfGen) positiveDuration() time.Duration {
	d := vfDigit()
	vfAssume(d != '0')
	g.b = append(g.b, d)
	u := vfDurUnits[[]int{4, 0, 1, 2, 3, 5, 6, 7, 8}[g.pick(len(vfDurUnits))]]
	g.raw(u.sp)
	return time.Duration(int64(d-'0') * u.mult)
}

var vfStmtGens = []vfStmtGen{
	{"select", genSelect},
	{"explain", genExplain},
	{"delete", genDelete},
	{"dropseries", genDropSeries},
	{"showseries", genShowSeries},
	{"showseriescard", genShowSeriesCardinality},
	{"showmeascard", genShowMeasurementCardinality},
	{"showtagkeycard", genShowTagKeyCardinality},
	{"showfieldkeycard", genShowFieldKeyCardinality},
	{"showtagvalues", genShowTagValues},
	{"showtagvaluescard", genShowTagValuesCardinality},
	{"showtagkeys", genShowTagKeys},
	{"showfieldkeys", genShowFieldKeys},
	{"showmeasurements", genShowMeasurements},
	{"showrp", genShowRetentionPolicies},
	{"showstats", genShowStats},
	{"showdiag", genShowDiagnostics},
	{"showgrants", genShowGrants},
	{"showsimple", genShowSimple},
	{"createdb", genCreateDatabase},
	{"createrp", genCreateRetentionPolicy},
	{"alterrp", genAlterRetentionPolicy},
	{"users", genUserStatements},
	{"grantrevoke", genGrantRevoke},
	{"dropsimple", genDropSimple},
	{"createsub", genCreateSubscription},
	{"createcq", genCreateContinuousQuery},
}

// vfBudget is the shape-enumeration budget of a statement family: quick = one deviation from the default
// skeleton plus one nested inside it; thorough = pairwise deviations for the families whose variant
// count keeps the square affordable, one deviation with two nested levels for the others.
var vfPairwiseFamilies = map[string]bool{"createsub": true, "delete": true, "dropseries": true, "dropsimple": true, "showdiag": true,
	"showfieldkeys": true, "showgrants": true, "showmeasurements": true, "showrp": true, "showseries": true, "showsimple": true,
	"showstats": true, "users": true}

func vfBudget(name string, tier int) (budget, sub int) {
	if tier == 0 {
		return 1, 1
	}
	if vfPairwiseFamilies[name] {
		return 2, 1
	}
	return 1, 2
}
