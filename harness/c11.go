package influxql

import "strings"

// C11 — regex-to-literal rewriting preserves which strings match.

var c11Bodies = []string{
	"a", "b", "é", "[ab]", "[a-c]", "[^a]", `\d`, ".", "ab", "a|b", "(a|b)", "(?:ab|c)", "a?", "a*", "a+", "a{1,2}", "(ab)?",
	"[ab][cd]", "a|", "", "(?i:a)", "[a-b]|c", "a.b", "foo", "(a)(b)", "(a|b)(c|d)", "[ab](c|d)e", "a(b|c)d", "(a|b)|c", "((a))", "[0-9]",
	"[0-9][0-9]", "[0-9a][0-9a]", "[a-z][a-z]", "(ab|cd)[ef]", `a\.b`, `a\|b`, "a(?i)b", "[[:alpha:]]", `\w`, "a$b", "a^b", `a\b`, "(^a)", "(a$)",
	"[a-cx-z]", "[☃]", "(é|e)", "a{2}", "a{0}", "(a|b){2}", "[ab]{2}",
}

var c11Frames = []string{
	"^%$", "%", "^%", "%$", "(?m)^%$", `\A%\z`, "(?i)^%$", "^(%)$", "^(?:%)$", "(?s)^%$", "(?U)^%$", "^%$|x", "^%$|^y$", "(^%$)", "^^%$$", "(?m:^)%$", "^%(?m:$)", "^%$\n", "^(?i:%)$", "^%\\z",
}

func c11Alt(n int) string {
	// n one-letter-plus-number alternatives: x0|x1|...
	var parts []string
	for i := 0; i < n; i++ {
		parts = append(parts, "x"+strings.Repeat("y", i%3)+string(rune('0'+i%10))+string(rune('a'+(i/10)%26)))
	}
	return strings.Join(parts, "|")
}

func vfH_C11_rewrite(tier int) {
	var body string
	bi := vfChoice(len(c11Bodies) + 3)
	switch {
	case bi < len(c11Bodies):
		body = c11Bodies[bi]
	case bi == len(c11Bodies):
		body = c11Alt(99)
	case bi == len(c11Bodies)+1:
		body = c11Alt(100)
	default:
		body = c11Alt(101)
	}
	frame := c11Frames[vfChoice(len(c11Frames))]
	pattern := strings.Replace(frame, "%", body, 1)
	neg := vfChoice(2) == 1
	op := "=~"
	if neg {
		op = "!~"
	}
	ctx := vfChoice(3)
	text := "SELECT v FROM m WHERE h " + op + " /" + strings.Replace(pattern, "/", `\/`, -1) + "/"
	switch ctx {
	case 1:
		text += " AND v > 1"
	case 2:
		text = "SELECT v FROM m WHERE (v > 1 OR h " + op + " /" + strings.Replace(pattern, "/", `\/`, -1) + "/) AND t = 'x'"
	}
	stmt, err := ParseStatement(text)
	if err != nil {
		vfReach("C11_rewrite/invalid-regex")
		return
	}
	vfNote(text)
	sel := stmt.(*SelectStatement)
	sel.RewriteRegexConditions()
	// find what became of the regex test
	var lits []string
	rewritten := false
	stillRegex := false
	wrongShape := false
	var walk func(e Expr, joiner Token)
	walk = func(e Expr, joiner Token) {
		switch e := e.(type) {
		case *ParenExpr:
			walk(e.Expr, joiner)
		case *BinaryExpr:
			if ref, ok := e.LHS.(*VarRef); ok && ref.Val == "h" {
				switch e.Op {
				case EQREGEX, NEQREGEX:
					stillRegex = true
				case EQ, NEQ:
					rewritten = true
					if (e.Op == NEQ) != neg {
						wrongShape = true
					}
					if s, ok := e.RHS.(*StringLiteral); ok {
						lits = append(lits, s.Val)
					} else {
						wrongShape = true
					}
				}
				return
			}
			walk(e.LHS, e.Op)
			walk(e.RHS, e.Op)
		}
	}
	walk(sel.Condition, 0)
	vfNote(sel.Condition.String())
	if stillRegex {
		// left as it was: nothing to prove (the regex itself is still evaluated)
		vfAssert(!rewritten, "C11/either-rewritten-or-left-alone")
		vfReach("C11_rewrite/left-alone")
		return
	}
	vfAssert(rewritten, "C11/regex-test-did-not-disappear")
	vfAssert(!wrongShape, "C11/equality-tests-have-the-right-operator-and-literal-operands")
	// the literal tests are joined by OR for =~ and by AND for !~: check on the printed shape
	if len(lits) > 1 {
		join := " OR "
		if neg {
			join = " AND "
		}
		vfAssert(strings.Count(sel.Condition.String(), join) >= len(lits)-1, "C11/literal-tests-joined-by-the-right-connective")
	}
	vfAssert(vfRegexEquivLiterals(pattern, lits), "C11/rewritten-literals-match-exactly-the-strings-the-regex-matches")
	vfReach("C11_rewrite/rewritten")
}
