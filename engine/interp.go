package main

import (
	"fmt"
	"os"
	"go/constant"
	"go/token"
	"go/types"
	"math"
	"strings"
	"sync"
	"time"

	"golang.org/x/tools/go/ssa"
)

// ---- path control (Go panics used for non-local exits of the interpreter)

type pathEnd struct {
	Kind string // "infeasible", "unsupported", "steplimit", "done"
	Msg  string
}

// interpPanic is a panic of the interpreted program.
type interpPanic struct {
	V     Value
	Msg   string
	Stack string
}

type fnInfo struct {
	idx   map[ssa.Value]int
	n     int
	pure  int // 0 unknown, 1 pure (if-convertible), 2 not
	hasDefer bool
}

var fnInfos sync.Map // *ssa.Function -> *fnInfo

func getFnInfo(fn *ssa.Function) *fnInfo {
	if v, ok := fnInfos.Load(fn); ok {
		return v.(*fnInfo)
	}
	fi := &fnInfo{idx: map[ssa.Value]int{}}
	for _, p := range fn.Params {
		fi.idx[p] = fi.n
		fi.n++
	}
	for _, p := range fn.FreeVars {
		fi.idx[p] = fi.n
		fi.n++
	}
	for _, b := range fn.Blocks {
		for _, ins := range b.Instrs {
			if v, ok := ins.(ssa.Value); ok {
				fi.idx[v] = fi.n
				fi.n++
			}
			switch ins.(type) {
			case *ssa.Defer, *ssa.RunDefers:
				fi.hasDefer = true
			}
		}
	}
	v, _ := fnInfos.LoadOrStore(fn, fi)
	return v.(*fnInfo)
}

type frame struct {
	in     *Interp
	fn     *ssa.Function
	fi     *fnInfo
	env    []Value
	block  *ssa.BasicBlock
	prev   *ssa.BasicBlock
	defers []func()
	result Value
	caller *frame
	panicking bool
	panicVal  *interpPanic
}

type Interp struct {
	prog    *ssa.Program
	mainPkg *ssa.Package
	ts      *TermStore
	solver  *Solver
	isolver *Solver
	cur     *Solver
	byteTab [256]*Term

	globals    map[*ssa.Global]*Value
	globalSlot map[*Value]bool // leaf slots reachable from package globals after init
	globalsDirty bool
	initDone   map[*ssa.Package]bool
	initFailed map[*ssa.Package]string
	constCache map[*ssa.Const]Value

	ext map[string]extFn

	// per-path state
	path *PathState
	cfg  *RunConfig

	depth int
	stats Stats
	fnsSeen map[*ssa.Function]bool
	stubsUsed map[string]int
	siblings     [][]int
	globalMaps   map[*MapV]bool
	explicitInit *ssa.Package
	digitProv    map[uint32]*digitsProv
	locs         map[*time.Location]*Native
	pureCache    map[*ssa.Function]int
	xcN, xcDone, xcUnknown int
	sampled int
	dumpN   int
	qcache  map[string]Result
	reProgs map[string]*reProg
	reSteps int64
	pendingModel Model
	fallbackSat  bool
	// write monitor
	frozen     map[*Value]bool
	frozenMaps map[*MapV]bool
	fixedZones map[string]*Native
	frozenHits []string
	frozenLax  bool // value-level monitor (vfFreeze): storing the identical value back is not a change
}

type Stats struct {
	Instrs       int64
	Paths        int
	BranchQ      int
	AssertQ      int
	AssertTrivial int
	ProbeHits     int // counterexamples found by boundary probing after a solver verdict unknown
	FactHits     int
	ModelHits    int
	Summaries    int
	IntQ         int
	Fallbacks    int
	CacheHits    int
	LooseKept    int
	RegexQ       int
}

type extFn func(in *Interp, fr *frame, fn *ssa.Function, args []Value) Value

func (in *Interp) unsupported(format string, a ...interface{}) {
	panic(pathEnd{Kind: "unsupported", Msg: fmt.Sprintf(format, a...)})
}

func (in *Interp) goPanic(fr *frame, v Value, msg string) {
	panic(&interpPanic{V: v, Msg: msg, Stack: in.stackString(fr)})
}

func (in *Interp) runtimePanic(fr *frame, msg string) {
	in.goPanic(fr, Iface{T: types.Universe.Lookup("error").Type(), V: Str{S: "runtime error: " + msg}}, "runtime error: "+msg)
}

func (in *Interp) stackString(fr *frame) string {
	var sb strings.Builder
	for f := fr; f != nil; f = f.caller {
		sb.WriteString(f.fn.String())
		sb.WriteString(" <- ")
	}
	return sb.String()
}

// ---- value lookup

func (fr *frame) get(v ssa.Value) Value {
	switch v := v.(type) {
	case *ssa.Const:
		return fr.in.constValue(v)
	case *ssa.Global:
		return fr.in.globalAddr(v)
	case *ssa.Function:
		return v
	case *ssa.Builtin:
		return v
	}
	i, ok := fr.fi.idx[v]
	if !ok {
		panic(fmt.Sprintf("get: no slot for %T %s in %s", v, v.Name(), fr.fn))
	}
	return fr.env[i]
}

func (fr *frame) set(v ssa.Value, x Value) {
	fr.env[fr.fi.idx[v]] = x
}

func (in *Interp) globalAddr(g *ssa.Global) *Value {
	if p, ok := in.globals[g]; ok {
		return p
	}
	// global of a package whose init has not been run: allocate zero, run init lazily
	if g.Pkg != in.mainPkg {
		in.ensureInit(g.Pkg)
		if p, ok := in.globals[g]; ok {
			return p
		}
	}
	p := new(Value)
	*p = in.zero(g.Type().(*types.Pointer).Elem())
	in.globals[g] = p
	return p
}

func (in *Interp) constValue(c *ssa.Const) Value {
	if v, ok := in.constCache[c]; ok {
		return v
	}
	v := in.constValue0(c)
	in.constCache[c] = v
	return v
}

func (in *Interp) constValue0(c *ssa.Const) Value {
	t := c.Type()
	if c.Value == nil {
		return in.zero(t)
	}
	if tp, ok := t.(*types.TypeParam); ok {
		_ = tp
		in.unsupported("const of type parameter")
	}
	u := t.Underlying()
	b, ok := u.(*types.Basic)
	if !ok {
		// e.g. interface-typed nil handled above
		panic(fmt.Sprintf("constValue: non-basic %s", t))
	}
	switch {
	case b.Info()&types.IsBoolean != 0:
		return in.ts.Bool(constant.BoolVal(c.Value))
	case b.Info()&types.IsString != 0:
		return Str{S: constant.StringVal(c.Value)}
	case b.Info()&types.IsFloat != 0:
		f, _ := constant.Float64Val(constant.ToFloat(c.Value))
		s, _ := isFloat(t)
		return in.ts.FP(s, f)
	case b.Info()&types.IsInteger != 0:
		w, signed, _ := intInfo(t)
		iv := constant.ToInt(c.Value)
		if signed {
			x, _ := constant.Int64Val(iv)
			return in.ts.BV(w, uint64(x))
		}
		x, _ := constant.Uint64Val(iv)
		return in.ts.BV(w, x)
	}
	in.unsupported("const of type %s", t)
	return nil
}

// ---- memory

func (in *Interp) load(T types.Type, addr *Value) Value {
	return copyVal(*addr)
}

func (in *Interp) store(T types.Type, addr *Value, v Value) {
	switch x := (*addr).(type) {
	case Struct:
		rhs := v.(Struct)
		st := T.Underlying().(*types.Struct)
		for i := range x {
			in.store(st.Field(i).Type(), &x[i], rhs[i])
		}
		return
	case Array:
		rhs := v.(Array)
		et := T.Underlying().(*types.Array).Elem()
		for i := range x {
			in.store(et, &x[i], rhs[i])
		}
		return
	}
	if in.globalSlot != nil && in.globalSlot[addr] {
		in.globalsDirty = true
	}
	if in.frozen != nil && in.frozen[addr] && !(in.frozenLax && identical(*addr, v)) {
		in.frozenHits = append(in.frozenHits, "store to frozen object")
	}
	*addr = v
}

// ---- running a function

func (in *Interp) call(fr *frame, fnv Value, args []Value, site ssa.Instruction) Value {
	switch f := fnv.(type) {
	case *ssa.Function:
		if f == nil {
			in.runtimePanic(fr, "invalid memory address or nil pointer dereference (nil func)")
		}
		return in.callFunction(fr, f, args, nil)
	case *Closure:
		return in.callFunction(fr, f.Fn, args, f.Env)
	case *ssa.Builtin:
		return in.callBuiltin(fr, f, args, site)
	case nil:
		in.runtimePanic(fr, "invalid memory address or nil pointer dereference (nil func)")
	}
	panic(fmt.Sprintf("call: not a function: %T", fnv))
}

func (in *Interp) callFunction(caller *frame, fn *ssa.Function, args []Value, env []Value) Value {
	// intrinsics and external models by full name
	name := fn.String()
	if fn.Origin() != nil {
		name = fn.Origin().String()
	}
	if h, ok := in.ext[name]; ok {
		in.stubsUsed[name]++
		if !opaqueTolerant[name] && !strings.HasSuffix(name, ".vfNote") {
			for _, a := range args {
				if hasOpaque(a) {
					in.unsupported("opaque error-message text passed to %s", name)
				}
			}
		}
		return h(in, caller, fn, args)
	}
	if fn.Synthetic == "package initializer" && fn.Pkg != in.explicitInit {
		return nil // library packages are initialised lazily (ensureInit)
	}
	if fn.Blocks == nil {
		in.unsupported("no body and no model for %s", name)
	}
	if fn.Pkg != nil && fn.Pkg != in.mainPkg {
		// library code interpreted from source: make sure its package state exists
		in.ensureInit(fn.Pkg)
	}
	if in.cfg != nil && in.cfg.Summaries && len(args) > 0 {
		if r, ok := in.tryPure(fn, args); ok {
			return r
		}
	}
	in.depth++
	if in.depth > 2000 {
		in.unsupported("call depth exceeded at %s", name)
	}
	fi := getFnInfo(fn)
	fr := &frame{in: in, fn: fn, fi: fi, env: make([]Value, fi.n), caller: caller}
	for i, p := range fn.Params {
		fr.env[fi.idx[p]] = args[i]
	}
	for i, fv := range fn.FreeVars {
		fr.env[fi.idx[fv]] = env[i]
	}
	if in.fnsSeen != nil {
		in.fnsSeen[fn] = true
	}
	in.runFrame(fr)
	in.depth--
	return fr.result
}

func (in *Interp) runFrame(fr *frame) {
	if fr.fi.hasDefer {
		defer func() {
			r := recover()
			if r == nil {
				return
			}
			ip, ok := r.(*interpPanic)
			if !ok {
				panic(r)
			}
			// run deferred calls in panicking mode
			fr.panicking = true
			fr.panicVal = ip
			in.runDefers(fr)
			if fr.panicking {
				panic(ip)
			}
			// recovered: function returns via Recover block or zero results
			if fr.fn.Recover != nil {
				fr.block = fr.fn.Recover
				fr.prev = nil
				in.depth = in.depthOf(fr)
				in.runBlocks(fr)
			} else {
				fr.result = in.zeroResults(fr.fn)
			}
		}()
	}
	fr.block = fr.fn.Blocks[0]
	in.runBlocks(fr)
}

func (in *Interp) depthOf(fr *frame) int {
	d := 0
	for f := fr; f != nil; f = f.caller {
		d++
	}
	return d
}

func (in *Interp) zeroResults(fn *ssa.Function) Value {
	res := fn.Signature.Results()
	switch res.Len() {
	case 0:
		return nil
	case 1:
		return in.zero(res.At(0).Type())
	}
	return in.zero(res)
}

func (in *Interp) runDefers(fr *frame) {
	for len(fr.defers) > 0 {
		d := fr.defers[len(fr.defers)-1]
		fr.defers = fr.defers[:len(fr.defers)-1]
		d()
	}
}

func (in *Interp) runBlocks(fr *frame) {
	for {
		b := fr.block
		var next *ssa.BasicBlock
		done := false
		for _, ins := range b.Instrs {
			in.stats.Instrs++
			if in.path != nil {
				if traceFns && in.path.Steps%5000 == 0 {
					fmt.Fprintf(os.Stderr, "step %d in %s block %d\n", in.path.Steps, fr.fn, b.Index)
				}
				in.path.Steps++
				if in.path.Steps > in.cfg.MaxSteps {
					panic(pathEnd{Kind: "steplimit", Msg: fmt.Sprintf("more than %d instructions; in %s", in.cfg.MaxSteps, fr.fn)})
				}
			}
			switch ins := ins.(type) {
			case *ssa.Jump:
				next = b.Succs[0]
			case *ssa.If:
				c := fr.get(ins.Cond).(*Term)
				if !c.IsConst() && in.cfg != nil && in.cfg.Summaries {
					if nb, pv, ok := in.mergeShortCircuit(fr, b, c); ok {
						next = nb
						b = pv // becomes fr.prev below
						break
					}
				}
				if in.branch(c, ins) {
					next = b.Succs[0]
				} else {
					next = b.Succs[1]
				}
			case *ssa.Return:
				switch len(ins.Results) {
				case 0:
				case 1:
					fr.result = fr.get(ins.Results[0])
				default:
					t := make(Tuple, len(ins.Results))
					for i, r := range ins.Results {
						t[i] = fr.get(r)
					}
					fr.result = t
				}
				done = true
			case *ssa.Panic:
				v := fr.get(ins.X)
				in.goPanic(fr, v, in.panicMessage(fr, v))
			default:
				in.exec(fr, ins)
			}
			if next != nil || done {
				break
			}
		}
		if done {
			return
		}
		if next == nil {
			panic("block fell through: " + fr.fn.String())
		}
		fr.prev = b
		fr.block = next
	}
}

func (in *Interp) panicMessage(fr *frame, v Value) string {
	if i, ok := v.(Iface); ok {
		if s, ok := i.V.(Str); ok {
			return s.String()
		}
		if i.T != nil {
			// error / Stringer: try Error()
			if m := in.findMethod(i.T, "Error"); m != nil {
				func() {
					defer func() { recover() }()
					r := in.callFunction(fr, m, []Value{i.V}, nil)
					if s, ok := r.(Str); ok {
						v = s
					}
				}()
				if s, ok := v.(Str); ok {
					return s.String()
				}
			}
			return fmt.Sprintf("panic(%s)", i.T)
		}
	}
	return fmt.Sprintf("%v", v)
}

func (in *Interp) findMethod(T types.Type, name string) *ssa.Function {
	ms := in.prog.MethodSets.MethodSet(T)
	for i := 0; i < ms.Len(); i++ {
		sel := ms.At(i)
		if sel.Obj().Name() == name {
			return in.prog.MethodValue(sel)
		}
	}
	return nil
}

// ---- instructions

func (in *Interp) exec(fr *frame, ins ssa.Instruction) {
	ts := in.ts
	switch ins := ins.(type) {
	case *ssa.DebugRef:
	case *ssa.UnOp:
		fr.set(ins, in.unop(fr, ins))
	case *ssa.BinOp:
		fr.set(ins, in.binop(fr, ins.Op, ins.X.Type(), fr.get(ins.X), fr.get(ins.Y), ins.Y.Type()))
	case *ssa.Call:
		fn, args := in.prepareCall(fr, &ins.Call)
		fr.set(ins, in.call(fr, fn, args, ins))
	case *ssa.ChangeInterface:
		fr.set(ins, fr.get(ins.X))
	case *ssa.ChangeType:
		fr.set(ins, fr.get(ins.X))
	case *ssa.Convert:
		fr.set(ins, in.conv(fr, ins.Type(), ins.X.Type(), fr.get(ins.X)))
	case *ssa.SliceToArrayPointer:
		in.unsupported("SliceToArrayPointer")
	case *ssa.MakeInterface:
		fr.set(ins, Iface{T: ins.X.Type(), V: fr.get(ins.X)})
	case *ssa.Extract:
		fr.set(ins, fr.get(ins.Tuple).(Tuple)[ins.Index])
	case *ssa.Slice:
		fr.set(ins, in.slice(fr, ins))
	case *ssa.Store:
		addr := in.ptr(fr, fr.get(ins.Addr))
		in.store(ins.Val.Type(), addr, copyVal(fr.get(ins.Val)))
	case *ssa.Phi:
		for i, pred := range ins.Block().Preds {
			if fr.prev == pred {
				fr.set(ins, fr.get(ins.Edges[i]))
				break
			}
		}
	case *ssa.Alloc:
		p := new(Value)
		*p = in.zero(ins.Type().(*types.Pointer).Elem())
		fr.set(ins, p)
	case *ssa.MakeSlice:
		n := in.concreteInt(fr, fr.get(ins.Len), "make len")
		c := in.concreteInt(fr, fr.get(ins.Cap), "make cap")
		if n < 0 || c < n || c > 1<<24 {
			in.runtimePanic(fr, "makeslice: len out of range")
		}
		et := ins.Type().Underlying().(*types.Slice).Elem()
		s := make([]Value, n, c)
		for i := range s {
			s[i] = in.zero(et)
		}
		fr.set(ins, s)
	case *ssa.MakeMap:
		fr.set(ins, newMap(ins.Type().Underlying().(*types.Map)))
	case *ssa.MakeClosure:
		env := make([]Value, len(ins.Bindings))
		for i, b := range ins.Bindings {
			env[i] = fr.get(b)
		}
		fr.set(ins, &Closure{Fn: ins.Fn.(*ssa.Function), Env: env})
	case *ssa.FieldAddr:
		p := in.ptr(fr, fr.get(ins.X))
		st, ok := (*p).(Struct)
		if !ok {
			in.unsupported("FieldAddr on %T (type %s) in %s", *p, ins.X.Type(), fr.fn)
		}
		fr.set(ins, &st[ins.Field])
	case *ssa.Field:
		fr.set(ins, copyVal(fr.get(ins.X).(Struct)[ins.Field]))
	case *ssa.IndexAddr:
		x := fr.get(ins.X)
		idx := fr.get(ins.Index).(*Term)
		switch x := x.(type) {
		case []Value:
			i := in.index(fr, idx, ins.Index.Type(), len(x))
			fr.set(ins, &x[i])
		case *Value:
			if x == nil {
				in.runtimePanic(fr, "invalid memory address or nil pointer dereference")
			}
			arr := (*x).(Array)
			i := in.index(fr, idx, ins.Index.Type(), len(arr))
			fr.set(ins, &arr[i])
		default:
			panic(fmt.Sprintf("IndexAddr on %T", x))
		}
	case *ssa.Index:
		x := fr.get(ins.X)
		idx := fr.get(ins.Index).(*Term)
		switch x := x.(type) {
		case Array:
			i := in.index(fr, idx, ins.Index.Type(), len(x))
			fr.set(ins, copyVal(x[i]))
		case Str:
			if !idx.IsConst() {
				fr.set(ins, in.symIndexStr(fr, x, idx, ins.Index.Type()))
			} else {
				i := in.index(fr, idx, ins.Index.Type(), x.Len())
				fr.set(ins, in.strByte(x, i))
			}
		default:
			panic(fmt.Sprintf("Index on %T", x))
		}
	case *ssa.Lookup:
		fr.set(ins, in.lookup(fr, ins))
	case *ssa.MapUpdate:
		m := fr.get(ins.Map).(*MapV)
		if m == nil {
			in.goPanic(fr, Str{S: "assignment to entry in nil map"}, "assignment to entry in nil map")
		}
		in.mapUpdate(fr, m, fr.get(ins.Key), copyVal(fr.get(ins.Value)))
	case *ssa.TypeAssert:
		fr.set(ins, in.typeAssert(fr, ins))
	case *ssa.Range:
		fr.set(ins, in.rangeIter(fr, fr.get(ins.X), ins.X.Type()))
	case *ssa.Next:
		fr.set(ins, fr.get(ins.Iter).(*iter).next(in, fr))
	case *ssa.Defer:
		fn, args := in.prepareCall(fr, &ins.Call)
		fr.defers = append(fr.defers, func() { in.call(fr, fn, args, ins) })
	case *ssa.RunDefers:
		in.runDefers(fr)
	case *ssa.Go, *ssa.Send, *ssa.Select, *ssa.MakeChan:
		in.unsupported("concurrency instruction %T in %s", ins, fr.fn)
	default:
		in.unsupported("instruction %T in %s", ins, fr.fn)
	}
	_ = ts
}

func (in *Interp) ptr(fr *frame, v Value) *Value {
	switch p := v.(type) {
	case *Value:
		if p == nil {
			in.runtimePanic(fr, "invalid memory address or nil pointer dereference")
		}
		return p
	case *Native:
		in.unsupported("dereference of native handle %T in %s", p.V, fr.fn)
	}
	panic(fmt.Sprintf("ptr: %T in %s", v, fr.fn))
}

func (in *Interp) concreteInt(fr *frame, v Value, what string) int {
	t := v.(*Term)
	if !t.IsConst() {
		t = in.concretize(t, what)
	}
	return int(t.Int())
}

// index checks bounds and returns a concrete index. A symbolic index is
// resolved by forking over the feasible values (lengths are small).
func (in *Interp) index(fr *frame, idx *Term, T types.Type, n int) int {
	if idx.IsConst() {
		_, signed, _ := intInfo(T)
		var i int64
		if signed {
			i = idx.Int()
		} else {
			if idx.C > uint64(math.MaxInt64) {
				in.runtimePanic(fr, "index out of range")
			}
			i = int64(idx.C)
		}
		if i < 0 || i >= int64(n) {
			in.runtimePanic(fr, fmt.Sprintf("index out of range [%d] with length %d", i, n))
		}
		return int(i)
	}
	ts := in.ts
	w, signed, _ := intInfo(T)
	inRange := ts.Cmp(OUlt, idx, ts.BV(w, uint64(n)))
	_ = signed
	if !in.branch(inRange, nil) {
		in.runtimePanic(fr, fmt.Sprintf("index out of range [symbolic] with length %d", n))
	}
	// fork over values
	alts := make([]*Term, n)
	for i := 0; i < n; i++ {
		alts[i] = ts.Eq(idx, ts.BV(w, uint64(i)))
	}
	return in.decideAmong(alts, "index")
}

func (in *Interp) symIndexStr(fr *frame, s Str, idx *Term, T types.Type) *Term {
	ts := in.ts
	w, _, _ := intInfo(T)
	n := s.Len()
	inRange := ts.Cmp(OUlt, idx, ts.BV(w, uint64(n)))
	if !in.branch(inRange, nil) {
		in.runtimePanic(fr, fmt.Sprintf("index out of range [symbolic] with length %d", n))
	}
	r := in.strByte(s, n-1)
	for i := n - 2; i >= 0; i-- {
		r = ts.Ite(ts.Eq(idx, ts.BV(w, uint64(i))), in.strByte(s, i), r)
	}
	return r
}

func (in *Interp) prepareCall(fr *frame, c *ssa.CallCommon) (Value, []Value) {
	var fn Value
	var args []Value
	if c.Method == nil {
		fn = fr.get(c.Value)
	} else {
		recv := fr.get(c.Value).(Iface)
		if recv.T == nil {
			in.runtimePanic(fr, "invalid memory address or nil pointer dereference (method call on nil interface)")
		}
		f := in.prog.LookupMethod(recv.T, c.Method.Pkg(), c.Method.Name())
		if f == nil {
			in.unsupported("method %s not found on %s", c.Method.Name(), recv.T)
		}
		fn = f
		args = append(args, recv.V)
	}
	for _, a := range c.Args {
		args = append(args, fr.get(a))
	}
	return fn, args
}

func (in *Interp) unop(fr *frame, ins *ssa.UnOp) Value {
	ts := in.ts
	x := fr.get(ins.X)
	switch ins.Op {
	case token.MUL: // load
		p := in.ptr(fr, x)
		return in.load(ins.Type(), p)
	case token.NOT:
		return ts.Not(x.(*Term))
	case token.SUB:
		t := x.(*Term)
		if t.S.K == KFP {
			return ts.FNeg(t)
		}
		return ts.Neg(t)
	case token.XOR:
		return ts.BNot(x.(*Term))
	case token.ARROW:
		in.unsupported("channel receive")
	}
	panic("unop " + ins.Op.String())
}

func (in *Interp) slice(fr *frame, ins *ssa.Slice) Value {
	x := fr.get(ins.X)
	geti := func(v ssa.Value, def int) int {
		if v == nil {
			return def
		}
		return in.concreteInt(fr, fr.get(v), "slice bound")
	}
	switch x := x.(type) {
	case Str:
		n := x.Len()
		lo, hi := geti(ins.Low, 0), geti(ins.High, n)
		if lo < 0 || hi < lo || hi > n {
			in.runtimePanic(fr, fmt.Sprintf("slice bounds out of range [%d:%d] with length %d", lo, hi, n))
		}
		return in.strSlice(x, lo, hi)
	case []Value:
		n, c := len(x), cap(x)
		lo, hi, max := geti(ins.Low, 0), geti(ins.High, n), geti(ins.Max, c)
		if lo < 0 || hi < lo || max < hi || max > c {
			in.runtimePanic(fr, fmt.Sprintf("slice bounds out of range [%d:%d:%d] with capacity %d", lo, hi, max, c))
		}
		if x == nil {
			return []Value(nil)
		}
		return x[lo:hi:max]
	case *Value:
		if x == nil {
			in.runtimePanic(fr, "invalid memory address or nil pointer dereference")
		}
		arr := (*x).(Array)
		n := len(arr)
		lo, hi, max := geti(ins.Low, 0), geti(ins.High, n), geti(ins.Max, n)
		if lo < 0 || hi < lo || max < hi || max > n {
			in.runtimePanic(fr, fmt.Sprintf("slice bounds out of range [%d:%d:%d] with capacity %d", lo, hi, max, n))
		}
		return []Value(arr)[lo:hi:max]
	}
	panic(fmt.Sprintf("slice of %T", x))
}

func (in *Interp) typeAssert(fr *frame, ins *ssa.TypeAssert) Value {
	v := fr.get(ins.X).(Iface)
	var ok bool
	var res Value
	if it, isI := ins.AssertedType.Underlying().(*types.Interface); isI {
		if v.T != nil && types.Implements(v.T, it) {
			ok = true
			res = v
		} else {
			res = Iface{}
		}
	} else {
		if v.T != nil && types.Identical(v.T, ins.AssertedType) {
			ok = true
			res = v.V
		} else {
			res = in.zero(ins.AssertedType)
		}
	}
	if ins.CommaOk {
		return Tuple{res, in.ts.Bool(ok)}
	}
	if !ok {
		tn := "nil"
		if v.T != nil {
			tn = v.T.String()
		}
		in.goPanic(fr, Str{S: "interface conversion"}, fmt.Sprintf("interface conversion: interface is %s, not %s", tn, ins.AssertedType))
	}
	return res
}

var traceFns = os.Getenv("SYMGO_TRACE") != ""

var opaqueTolerant = map[string]bool{"fmt.Sprintf": true, "fmt.Errorf": true, "fmt.Sprint": true, "strings.Join": true}

func hasOpaque(v Value) bool {
	switch x := v.(type) {
	case Str:
		return x.Opq
	case Iface:
		return hasOpaque(x.V)
	case []Value:
		for _, e := range x {
			if hasOpaque(e) {
				return true
			}
		}
	}
	return false
}

// mergeShortCircuit recognises `a || b` and `a && b` in branch position:
//   b0: if c1 goto T else B2 ;  B2: <pure scalar instrs> ; if c2 goto T else E     (||)
//   b0: if c1 goto B2 else E ;  B2: <pure scalar instrs> ; if c2 goto T else E     (&&)
// and decides the combined condition once instead of forking twice. B2's
// instructions are side-effect free scalar operations, so evaluating them
// speculatively is sound. Returns the next block and the block to record as
// predecessor.
func (in *Interp) mergeShortCircuit(fr *frame, b0 *ssa.BasicBlock, c1 *Term) (*ssa.BasicBlock, *ssa.BasicBlock, bool) {
	if _, known := in.known(c1); known {
		return nil, nil, false
	}
	try := func(b2 *ssa.BasicBlock, isOr bool) (*ssa.BasicBlock, *ssa.BasicBlock, bool) {
		if len(b2.Preds) != 1 || len(b2.Instrs) == 0 {
			return nil, nil, false
		}
		if2, ok := b2.Instrs[len(b2.Instrs)-1].(*ssa.If)
		if !ok {
			return nil, nil, false
		}
		var T, E *ssa.BasicBlock
		if isOr {
			T, E = b0.Succs[0], b2.Succs[1]
			if b2.Succs[0] != T {
				return nil, nil, false
			}
		} else {
			T, E = b2.Succs[0], b0.Succs[1]
			if b2.Succs[1] != E {
				return nil, nil, false
			}
		}
		// the shared target is entered from either b0 or b2: it must not have phis
		shared := T
		if !isOr {
			shared = E
		}
		if len(shared.Instrs) > 0 {
			if _, isPhi := shared.Instrs[0].(*ssa.Phi); isPhi {
				return nil, nil, false
			}
		}
		for _, ins := range b2.Instrs[:len(b2.Instrs)-1] {
			switch x := ins.(type) {
			case *ssa.BinOp:
				if !scalarType(x.X.Type()) {
					return nil, nil, false
				}
				switch x.Op.String() {
				case "/", "%", "<<", ">>":
					return nil, nil, false
				}
			case *ssa.UnOp:
				if x.Op.String() == "*" || x.Op.String() == "<-" || !scalarType(x.Type()) {
					return nil, nil, false
				}
			case *ssa.Convert:
				if !scalarType(x.Type()) || !scalarType(x.X.Type()) {
					return nil, nil, false
				}
			case *ssa.Call:
				callee, ok := x.Call.Value.(*ssa.Function)
				if !ok || x.Call.Method != nil || !in.pureOK(callee) {
					return nil, nil, false
				}
			case *ssa.DebugRef:
			default:
				return nil, nil, false
			}
		}
		// speculative evaluation of B2's pure instructions
		for _, ins := range b2.Instrs[:len(b2.Instrs)-1] {
			in.stats.Instrs++
			if call, ok := ins.(*ssa.Call); ok {
				args := make([]Value, len(call.Call.Args))
				for i, a := range call.Call.Args {
					args[i] = fr.get(a)
				}
				fr.set(call, in.evalPure(call.Call.Value.(*ssa.Function), args))
				continue
			}
			in.exec(fr, ins)
		}
		c2 := fr.get(if2.Cond).(*Term)
		var comb *Term
		if isOr {
			comb = in.ts.Or(c1, c2)
		} else {
			comb = in.ts.And(c1, c2)
		}
		taken := in.branch(comb, if2)
		if isOr {
			if taken {
				return T, b0, true
			}
			return E, b2, true
		}
		if taken {
			return T, b2, true
		}
		return E, b0, true
	}
	if nb, pv, ok := try(b0.Succs[1], true); ok {
		return nb, pv, true
	}
	if nb, pv, ok := try(b0.Succs[0], false); ok {
		return nb, pv, true
	}
	return nil, nil, false
}

// identical: the same scalar term or the same reference (no structural comparison).
func identical(a, b Value) bool {
	switch x := a.(type) {
	case *Term:
		y, ok := b.(*Term)
		return ok && x == y
	case *Value:
		y, ok := b.(*Value)
		return ok && x == y
	case *MapV:
		y, ok := b.(*MapV)
		return ok && x == y
	case Str:
		y, ok := b.(Str)
		return ok && x.B == nil && y.B == nil && !x.Opq && !y.Opq && x.S == y.S
	case nil:
		return b == nil
	}
	return false
}
