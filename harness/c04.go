package influxql

import (
	"errors"
	"io"
	"strings"
)

// C04 — parsing is total: any input yields an AST or an error, never a crash or hang.

// rune source over an explicit rune slice (symbolic runes need no UTF-8 decoding this way)
type c04Src struct {
	runes []rune
	pos   int
	can   bool
}

func (s *c04Src) ReadRune() (rune, int, error) {
	if s.pos >= len(s.runes) {
		s.can = false
		return 0, 0, io.EOF
	}
	r := s.runes[s.pos]
	s.pos++
	s.can = true
	return r, 1, nil
}

func (s *c04Src) UnreadRune() error {
	if !s.can {
		return errors.New("invalid use of UnreadRune")
	}
	s.pos--
	s.can = false
	return nil
}

func c04Parser(rs []rune) *Parser {
	return &Parser{s: &bufScanner{s: &Scanner{r: &reader{r: &c04Src{runes: rs}}}}}
}

var c04Anchors = [][2]string{
	{"", ""},
	{"SELECT ", " FROM m"},
	{"SELECT a FROM ", ""},
	{"SELECT a FROM m WHERE ", ""},
	{"SELECT a FROM m WHERE x = ", " AND y = 1"},
	{"SELECT a FROM m WHERE x =~ ", ""},
	{"SELECT -", " FROM m"},
	{"SELECT f(", ") FROM m"},
	{"SELECT a FROM m GROUP BY time(", ")"},
	{"SELECT a INTO ", " FROM m"},
	{"SELECT a FROM db.", ""},
	{"SELECT a::", " FROM m"},
	{"SHOW ", ""},
	{"CREATE ", ""},
	{"SELECT a FROM m LIMIT ", ""},
	{"SELECT a FROM m;", ""},
	{"SELECT 'a", ""},
	{"SELECT \"a", "\" FROM m"},
	{"SELECT a /* ", ""},
	{"SELECT $", " FROM m"},
	{"SELECT a FROM m WHERE time > now() - ", ""},
	{"ALTER RETENTION POLICY p ON d ", ""},
	{"SELECT a FROM m ORDER BY ", ""},
	{"SELECT a FROM m fill(", ")"},
	{"SELECT a FROM (", ")"},
	{"GRANT ", " ON d TO u"},
	{"SELECT a, ", " FROM m"},
	{"CREATE CONTINUOUS QUERY q ON d BEGIN SELECT count(a) INTO t FROM m GROUP BY time(", ") END"},
	{"SHOW TAG VALUES WITH KEY =~ ", ""},
	{"SHOW TAG KEYS FROM m WITH KEY !~ ", " WHERE a = 1"},
	{"SELECT a FROM m WHERE a = 1 GROUP BY ", ""},
	{"DELETE ", ""},
}

// any Unicode scalar value, NUL included (invalid UTF-8 reaches the lexer as U+FFFD, which is one of them)
func c04Rune() rune {
	r := vfRune()
	vfAssume(r >= 0)
	vfAssume(r <= 0x10FFFF)
	vfAssume(vfOr(r < 0xD800, r > 0xDFFF))
	return r
}

func c04Use(res interface{ String() string }, node Node) (panicked bool) {
	p, _ := vfCatch(func() {
		_ = res.String()
		WalkFunc(node, func(Node) {})
	})
	return p
}

func vfH_C04_window(tier int) {
	vfLooseLibraries()
	w := 2
	ai := vfChoice(len(c04Anchors))
	a := c04Anchors[ai]
	if tier > 0 && (ai == 0 || ai == 3) {
		w = 3 // thorough: three-character windows on the empty frame and after WHERE
	}
	n := vfChoice(w + 1)
	if tier == 0 && n == 2 && ai%3 != 1 {
		return // quick tier: two-character windows at every third anchor only
	}
	var rs []rune
	rs = append(rs, []rune(a[0])...)
	var win []rune
	// variant 1 prints the result and keeps digits out of the window (number and duration
	// formatting is C08's and C13's subject); variant 0 takes any character and only parses
	printIt := vfChoice(2) == 1
	for i := 0; i < n; i++ {
		r := c04Rune()
		if printIt {
			vfAssume(vfOr(r < '0', r > '9'))
		}
		rs = append(rs, r)
		win = append(win, r)
	}
	rs = append(rs, []rune(a[1])...)
	vfNote(a[0] + "<window>" + a[1])
	vfNoteRunes("window", win)
	api := 0
	if n < 2 || (tier > 0 && n == 2 && ai%3 == 1) {
		api = vfChoice(3) // the other two entry points get the shorter windows in the quick tier
	}
	switch api {
	case 0:
		q, err := c04Parser(rs).ParseQuery()
		vfAssert(err != nil || q != nil, "C04/ParseQuery-returns-a-result-or-an-error")
		if err == nil && q != nil && printIt {
			vfAssert(!c04Use(q, q), "C04/returned-query-can-be-printed-and-walked")
		}
	case 1:
		s, err := c04Parser(rs).ParseStatement()
		vfAssert(err != nil || s != nil, "C04/ParseStatement-returns-a-result-or-an-error")
		if err == nil && s != nil && printIt {
			vfAssert(!c04Use(s, s), "C04/returned-statement-can-be-printed-and-walked")
		}
	default:
		// the expression window: drop the statement frame
		e, err := c04Parser(append([]rune("x = "), win...)).ParseExpr()
		vfAssert(err != nil || e != nil, "C04/ParseExpr-returns-a-result-or-an-error")
		if err == nil && e != nil && printIt {
			vfAssert(!c04Use(e, e), "C04/returned-expression-can-be-printed-and-walked")
		}
	}
	vfReach("C04_window/ok")
}

// damaged statements: every generated statement truncated, with a character deleted, or with an
// arbitrary character inserted or substituted at an arbitrary position
func vfH_C04_damaged(tier int) {
	vfLooseLibraries()
	kind := vfChoice(len(vfStmtGens))
	g := &vfGen{tier: tier, budget: 0, plainWS: true, plainKW: true}
	vfConcreteHoles = true
	vfStmtGens[kind].gen(g)
	vfConcreteHoles = false
	text := g.text()
	rs := []rune(text)
	printIt := vfChoice(2) == 1
	damageRune := func() rune {
		r := c04Rune()
		if printIt {
			vfAssume(vfOr(r < '0', r > '9'))
		}
		return r
	}
	// positions: every token boundary (gap) and the characters next to it; every position in the thorough tier
	var cands []int
	if tier > 0 {
		for i := 0; i <= len(rs); i++ {
			cands = append(cands, i)
		}
	} else {
		cands = append(cands, 0, len(rs))
		for _, o := range g.gaps {
			// byte offsets equal rune offsets: the canonical text is ASCII except inside names, which come later
			cands = append(cands, o, o+1)
		}
	}
	pos := cands[vfChoice(len(cands))]
	if pos > len(rs) {
		return
	}
	var out []rune
	dmg := vfChoice(4)
	if tier > 0 && dmg >= 2 && kind%2 != 0 {
		return // thorough tier: arbitrary characters are injected into every second statement family
	}
	if tier == 0 && dmg >= 2 && kind%6 != 0 {
		return // quick tier: arbitrary characters are injected into every sixth statement family only
	}
	switch dmg {
	case 0: // truncated
		out = rs[:pos]
	case 1: // one character deleted
		if pos >= len(rs) {
			return
		}
		out = append(append(out, rs[:pos]...), rs[pos+1:]...)
	case 2: // arbitrary character inserted
		out = append(append(append(out, rs[:pos]...), damageRune()), rs[pos:]...)
	default: // arbitrary character substituted
		if pos >= len(rs) {
			return
		}
		out = append(append(append(out, rs[:pos]...), damageRune()), rs[pos+1:]...)
	}
	vfNoteRunes("text", out)
	q, err := c04Parser(out).ParseQuery()
	vfAssert(err != nil || q != nil, "C04/ParseQuery-returns-a-result-or-an-error")
	if err == nil && q != nil && (printIt || dmg < 2) {
		vfAssert(!c04Use(q, q), "C04/returned-query-can-be-printed-and-walked")
	}
	vfReach("C04_damaged/ok")
}

// bound parameters of every kind in every kind of position, including positions they do not fit
func vfH_C04_params(tier int) {
	vfLooseLibraries()
	texts := []string{
		"SELECT $p FROM m", "SELECT a FROM $p", "SELECT a FROM m WHERE k = $p", "SELECT a FROM m WHERE k =~ $p", "SELECT -$p FROM m",
		"SELECT f($p) FROM m GROUP BY time($p)", "SELECT a FROM m LIMIT $p", "SELECT a INTO $p FROM m", "SELECT a FROM m WHERE time > now() - $p",
		"SELECT a FROM m fill($p)", "SELECT a FROM m tz($p)", "SHOW TAG VALUES WITH KEY = $p", "SHOW TAG VALUES WITH KEY =~ $p", "CREATE USER $p WITH PASSWORD $p",
		"SELECT a FROM m ORDER BY $p", "SELECT a AS $p FROM m", "SELECT a::$p FROM m", "$p", "SELECT $p.$p FROM m", "DROP SERIES FROM $p WHERE $p",
		"SELECT $ FROM m", "SELECT $q FROM m", "KILL QUERY $p", "CREATE DATABASE d WITH DURATION $p REPLICATION $p",
	}
	text := texts[vfChoice(len(texts))]
	kind := vfChoice(c07NKinds + 3)
	params := map[string]interface{}{}
	switch {
	case kind < c07NKinds:
		v := c07MakeVal(kind, tier)
		if kind != c07Unbound {
			params["p"] = v.raw
		}
	case kind == c07NKinds: // identifier that is a keyword
		kws := []string{"select", "from", "time", "*", ""}
		params["p"] = map[string]interface{}{"ident": kws[vfChoice(len(kws))]}
	case kind == c07NKinds+1: // invalid regex / invalid duration
		if vfChoice(2) == 0 {
			params["p"] = map[string]interface{}{"regex": "(["}
		} else {
			params["p"] = map[string]interface{}{"duration": "12parsecs"}
		}
	default: // nil and nested values
		if vfChoice(2) == 0 {
			params["p"] = nil
		} else {
			params["p"] = map[string]interface{}{"string": map[string]interface{}{"x": 1}}
		}
	}
	vfNote(text)
	p := NewParser(strings.NewReader(text))
	p.SetParams(params)
	q, err := p.ParseQuery()
	vfAssert(err != nil || q != nil, "C04/ParseQuery-returns-a-result-or-an-error")
	if err == nil && q != nil {
		vfAssert(!c04Use(q, q), "C04/returned-query-can-be-printed-and-walked")
	}
	vfReach("C04_params/ok")
}

// numerals: any sign prefix, digit strings around the int64 / uint64 boundaries and short ones, any
// suffix that keeps it a numeral, in the positions a number can take. Exact library models (no loose mode):
// which branch ParseInt / ParseUint / ParseFloat take is decided by the digits.
func vfH_C04_numbers(tier int) {
	signs := []string{"", "-", "+", "- ", "+ ", "-+"}
	sign := signs[vfChoice(len(signs))]
	// the digit string: two symbolic digits after a prefix that puts the value around the
	// boundaries of int64 and uint64 (or nowhere near them) - every numeral of these 400 is covered
	prefixes := []string{"", "92233720368547758", "184467440737095516", "999999999999999999"}
	pre := prefixes[vfChoice(len(prefixes))]
	ds := []byte(pre)
	nsym := 2
	if pre == "" {
		nsym = 1 + vfChoice(2)
	}
	for i := 0; i < nsym; i++ {
		ds = append(ds, vfDigit())
	}
	sufs := []string{"", "s", "u"} // float spellings are parsed by strconv.ParseFloat, which has no symbolic model
	suf := sufs[vfChoice(len(sufs))]
	num := sign + string(ds) + suf
	frames := [][2]string{{"SELECT ", " FROM m"}, {"SELECT a FROM m WHERE v < ", ""}, {"SELECT a FROM m GROUP BY time(1s) fill(", ")"},
		{"SELECT a FROM m LIMIT ", ""}, {"SELECT a FROM m GROUP BY time(", ")"}, {"SELECT f(a, ", ") FROM m"}}
	if tier == 0 {
		frames = frames[:3]
	}
	fr := frames[vfChoice(len(frames))]
	text := fr[0] + num + fr[1]
	vfNote(text)
	var s Statement
	var err error
	panicked, _ := vfCatch(func() { s, err = ParseStatement(text) })
	vfAssert(!panicked, "C04/numbers/parsing-a-numeral-does-not-panic")
	if panicked {
		return
	}
	vfAssert(err != nil || s != nil, "C04/numbers/result-or-error")
	if err == nil && s != nil {
		// walking only: printing numbers and durations is C02's and C08's subject
		p2, _ := vfCatch(func() { WalkFunc(s, func(Node) {}) })
		vfAssert(!p2, "C04/numbers/returned-statement-can-be-walked")
	}
	vfReach("C04_numbers/ok")
}
