package influxql

import "strings"

// C06 — quoting helpers invert the lexer and cannot be broken out of.

func c06Bounds(tier int) (n, wide int) {
	if tier > 0 {
		return 4, 3
	}
	return 3, 1
}

// QuoteString(s) scans as exactly one string literal with value s.
func vfH_C06_quotestring(tier int) {
	N, wide := c06Bounds(tier)
	n := vfChoice(N + 1)
	s := vfExprString(n, wide)
	q := QuoteString(s)
	sc := NewScanner(strings.NewReader(q))
	tok, _, lit := sc.Scan()
	vfNote(q)
	vfAssert(tok == STRING, "C06_quotestring/scans-as-STRING")
	vfAssert(lit == s, "C06_quotestring/value-is-s")
	tok2, _, _ := sc.Scan()
	vfAssert(tok2 == EOF, "C06_quotestring/nothing-left")
	vfReach("C06_quotestring/ok")
}

// QuoteIdent(s) scans as exactly one identifier with value s.
func vfH_C06_quoteident(tier int) {
	N, wide := c06Bounds(tier)
	n := vfChoice(N + 1)
	s := vfExprString(n, wide)
	q := QuoteIdent(s)
	sc := NewScanner(strings.NewReader(q))
	tok, _, lit := sc.Scan()
	vfNote(q)
	vfAssert(tok == IDENT, "C06_quoteident/scans-as-IDENT")
	vfAssert(lit == s, "C06_quoteident/value-is-s")
	tok2, _, _ := sc.Scan()
	vfAssert(tok2 == EOF, "C06_quoteident/nothing-left")
	vfReach("C06_quoteident/ok")
}

// IdentNeedsQuotes(s) is false exactly when s written bare scans as that one identifier.
func vfH_C06_needsquotes(tier int) {
	N, wide := c06Bounds(tier)
	n := 1 + vfChoice(N)
	s := vfExprString(n, wide)
	need := IdentNeedsQuotes(s)
	sc := NewScanner(strings.NewReader(s))
	tok, _, lit := sc.Scan()
	bare := false
	if tok == IDENT {
		if lit == s {
			tok2, _, _ := sc.Scan()
			bare = tok2 == EOF
		}
	}
	vfNote(s)
	vfAssert(need == !bare, "C06_needsquotes/false-iff-bare-scan-is-that-identifier")
	vfReach("C06_needsquotes/ok")
}

// multi-part names database.policy.measurement, middle part possibly empty
func vfH_C06_segments(tier int) {
	N, wide := 2, 1
	if tier > 0 {
		N, wide = 3, 2
	}
	parts := 2 + vfChoice(2)
	var segs []string
	for i := 0; i < parts; i++ {
		lo := 1
		if parts == 3 && i == 1 {
			lo = 0 // empty retention policy: db..m
		}
		n := lo + vfChoice(N-lo+1)
		segs = append(segs, vfExprString(n, wide))
	}
	q := QuoteIdent(segs...)
	vfNote(q)
	stmt, err := ParseStatement("SELECT * FROM " + q)
	vfAssert(err == nil, "C06_segments/parses")
	if err != nil {
		return
	}
	sel, ok := stmt.(*SelectStatement)
	vfAssert(ok, "C06_segments/is-select")
	vfAssert(len(sel.Sources) == 1, "C06_segments/one-source")
	m, ok := sel.Sources[0].(*Measurement)
	vfAssert(ok, "C06_segments/is-measurement")
	want := &Measurement{}
	if parts == 2 {
		want.RetentionPolicy, want.Name = segs[0], segs[1]
	} else {
		want.Database, want.RetentionPolicy, want.Name = segs[0], segs[1], segs[2]
	}
	vfAssert(vfDeepEqual(m, want), "C06_segments/measurement-has-the-parts")
	vfReach("C06_segments/ok")
}
