package influxql

// C15 — passwords never appear in printed statements or sanitized query text.

// c15Password writes a string literal holding a symbolic password of n elements and returns its value.
// easy: only characters that are neither whitespace nor a quote nor a backslash (the
// class Sanitize's patterns are written for); otherwise every expressible character and escape.
func c15Password(g *vfGen, n int, easy bool) string {
	var val []byte
	g.b = append(g.b, '\'')
	for i := 0; i < n; i++ {
		k := 0
		if !easy {
			k = vfChoice(4)
		}
		switch k {
		case 0: // any plain character, spaces and the other quote included
			c := vfPlainChar('\'')
			if easy {
				vfAssume(c != ' ')
				vfAssume(c != '\t')
				vfAssume(c != '\f')
				vfAssume(c != '\v')
				vfAssume(c != '"')
			}
			g.b = append(g.b, c)
			val = append(val, c)
		case 1:
			g.raw(`\'`)
			val = append(val, '\'')
		case 2:
			g.raw(`\\`)
			val = append(val, '\\')
		default:
			g.raw(" ")
			val = append(val, ' ')
		}
	}
	g.b = append(g.b, '\'')
	return string(val)
}

// c15Statement writes a password statement; returns the byte range of the password literal (quotes included).
func c15Statement(g *vfGen, form int, pwLen int, easy bool) (int, int, string) {
	eqGap := func() {
		// whitespace around '=': one character; or none, two, or a comment
		if easy {
			g.sp()
			return
		}
		switch g.pick(4) {
		case 0:
			g.sp()
		case 1:
		case 2:
			g.raw(" \t")
		default:
			g.raw(" /* c */ ")
		}
	}
	switch form {
	case 0, 1:
		g.kw("CREATE")
		g.kws("USER")
		g.sp()
		g.ident()
		g.kws("WITH", "PASSWORD")
		g.sp()
		i := len(g.b)
		pw := c15Password(g, pwLen, easy)
		j := len(g.b)
		if form == 1 {
			g.kws("WITH", "ALL", "PRIVILEGES")
		}
		return i, j, pw
	default:
		g.kw("SET")
		g.kws("PASSWORD", "FOR")
		g.sp()
		g.ident()
		eqGap()
		g.raw("=")
		eqGap()
		i := len(g.b)
		pw := c15Password(g, pwLen, easy)
		j := len(g.b)
		return i, j, pw
	}
}

// printing never depends on the password
func vfH_C15_print(tier int) {
	g := &vfGen{tier: tier, budget: 1}
	form := vfChoice(3)
	n := vfChoice(3 + tier)
	_, _, _ = c15Statement(g, form, n, false)
	text := g.text()
	vfNote(text)
	stmt, err := ParseStatement(text)
	if err != nil {
		vfReach("C15_print/rejected")
		return
	}
	out := stmt.String()
	// the same statement with another, unrelated password
	other := string([]byte{vfASCII(), vfASCII()})
	switch s := stmt.(type) {
	case *CreateUserStatement:
		s.Password = other
	case *SetPasswordUserStatement:
		s.Password = other
	}
	out2 := stmt.String()
	vfNote(out)
	vfAssert(out == out2, "C15/printed-statement-does-not-depend-on-the-password")
	vfReach("C15_print/ok")
}

// Sanitize removes exactly the password literal and nothing else
func vfH_C15_sanitize(tier int) {
	form := vfChoice(3)
	n := 1 + vfChoice(2+tier)
	// easy: the layouts and password characters Sanitize's patterns are written for (password of
	// non-blank, non-quote characters, blanks around '=', blank after the literal). The other
	// layouts are valid statements too; Sanitize mishandles several of them (recorded findings),
	// so they carry their own assertion labels and do not mask a regression on the easy ones.
	easy := vfChoice(2) == 0
	tag := ""
	if !easy {
		tag = "[hard-layout]"
	}
	// two renderings of the same layout with unrelated passwords of the same shape
	g := &vfGen{tier: tier, budget: 1, noEquals: easy}
	prefix := ""
	switch g.pick(3) {
	case 1:
		prefix = "SHOW DATABASES; "
	case 2:
		prefix = "select a from m where p = 'x';\n"
	}
	g.raw(prefix)
	i, j, _ := c15Statement(g, form, n, easy)
	switch g.pick(4) {
	case 1:
		g.raw(" ; DROP USER u")
	case 2:
		g.raw(" ;")
	case 3:
		if !easy {
			g.raw("; DROP USER u")
		}
	}
	text := g.text()
	vfNote(text)
	if _, err := ParseQuery(text); err != nil {
		vfReach("C15_sanitize/rejected")
		return // only statements the parser accepts are in scope
	}
	got := Sanitize(text)
	vfNote(got)
	k := len(text) - j
	vfAssert(len(got) >= i+k, "C15/sanitize-keeps-the-text-around-the-password"+tag)
	if len(got) < i+k {
		return
	}
	vfAssert(got[:i] == text[:i], "C15/sanitize-changes-nothing-before-the-password"+tag)
	vfAssert(got[len(got)-k:] == text[j:], "C15/sanitize-changes-nothing-after-the-password"+tag)
	mid := got[i : len(got)-k]
	// the replacement must not contain any fragment of the password: it must be one of the fixed forms
	ok := vfOr(mid == "[REDACTED]", vfOr(mid == "'[REDACTED]'", mid == "\"[REDACTED]\""))
	vfAssert(ok, "C15/sanitize-leaves-no-fragment-of-the-password"+tag)
	vfReach("C15_sanitize/ok")
}

// several password statements in one text (same or different kinds, any order): every password is redacted
func vfH_C15_multi(tier int) {
	// fixed keyword spelling and single blanks (the single-statement harness varies those); names and passwords symbolic
	g := &vfGen{tier: tier, budget: 0, noEquals: true, plainWS: true, plainKW: true}
	ns := 2 + vfChoice(1+tier)
	var is, js []int
	for k := 0; k < ns; k++ {
		if k > 0 {
			g.raw(" ; ") // blank after the literal: the layout Sanitize's patterns are written for
		}
		i, j, _ := c15Statement(g, vfChoice(3), 1+vfChoice(2), true)
		is, js = append(is, i), append(js, j)
	}
	text := g.text()
	vfNote(text)
	if _, err := ParseQuery(text); err != nil {
		vfReach("C15_multi/rejected")
		return
	}
	got := Sanitize(text)
	vfNote(got)
	// expected: the text with every password literal replaced by one of the fixed forms
	pos := 0 // position in got
	prev := 0
	okAll := true
	for k := 0; k < ns && okAll; k++ {
		seg := text[prev:is[k]]
		if len(got) < pos+len(seg) || got[pos:pos+len(seg)] != seg {
			okAll = false
			break
		}
		pos += len(seg)
		switch {
		case len(got) >= pos+10 && got[pos:pos+10] == "[REDACTED]":
			pos += 10
		case len(got) >= pos+12 && got[pos:pos+12] == "'[REDACTED]'":
			pos += 12
		default:
			okAll = false
		}
		prev = js[k]
	}
	if okAll {
		okAll = got[pos:] == text[prev:]
	}
	vfAssert(okAll, "C15/multi/every-password-is-redacted-and-nothing-else-changes")
	vfReach("C15_multi/ok")
}

// the character(s) between the keyword (or '=') and the password literal: whatever the lexer accepts
// as a separator there (any Unicode scalar value is tried), Sanitize must treat as one too
func vfH_C15_separator(tier int) {
	r := vfRune()
	vfAssume(r > 0)
	vfAssume(r <= 0x10FFFF)
	vfAssume(vfOr(r < 0xD800, r > 0xDFFF))
	c := vfPlainChar('\'')
	vfAssume(c != ' ')
	vfAssume(c != '\t')
	vfAssume(c != '\f')
	vfAssume(c != '\v')
	vfAssume(c != '"')
	pw := "'" + string([]byte{c}) + "x'"
	sep := string(r)
	var head string
	switch vfChoice(4) {
	case 0:
		head = "CREATE USER u WITH PASSWORD" + sep
	case 1:
		head = "SET PASSWORD FOR u = " + sep
	case 2:
		head = "SET PASSWORD FOR u =" + sep
	default:
		head = "CREATE USER u WITH" + sep + "PASSWORD "
	}
	text := head + pw + " "
	vfNoteRunes("separator", []rune{r})
	if _, err := ParseQuery(text); err != nil {
		vfReach("C15_separator/rejected")
		return
	}
	got := Sanitize(text)
	vfAssert(got == head+"[REDACTED] ", "C15/separator/password-after-any-accepted-separator-is-redacted")
	vfReach("C15_separator/ok")
}

// text without a password clause is returned unchanged
func vfH_C15_unchanged(tier int) {
	var text string
	tag := ""
	if vfChoice(2) == 0 {
		kind := vfChoice(len(vfStmtGens))
		if vfStmtGens[kind].name == "users" {
			return
		}
		g := &vfGen{tier: tier, budget: 0}
		vfStmtGens[kind].gen(g)
		text = g.text()
	} else {
		look := []string{
			"SELECT password FROM m", "SHOW GRANTS FOR password",
			"SELECT a FROM m WHERE password = 'x y'", "DROP USER password", "SELECT passwordfor FROM withpassword",
			// names and strings that contain the words of a password clause: Sanitize rewrites them (recorded finding)
			"SELECT * FROM \"with password x\" WHERE a = 1", "SELECT a FROM m WHERE note = 'set password for u = x'",
		}
		k := vfChoice(len(look))
		text = look[k]
		if k >= 5 {
			tag = "[clause-words-inside-a-name-or-string]"
		}
	}
	vfNote(text)
	vfAssert(Sanitize(text) == text, "C15/text-without-password-clause-is-unchanged"+tag)
	vfReach("C15_unchanged/ok")
}
